//! Native replayer: runs a concrete public-API history (found by the solver) against the real crate and
//! re-evaluates every oracle with an independent reference model.  Output: one line per finding
//! (`MISMATCH <op#> <tag> <detail>` / `PANIC <op#> <msg>`), `BEGIN <op#>` markers so that an abort can be located,
//! and a final `DONE <findings>` line.  Exit code 0 = clean, 3 = findings.
use i_tree::key::array::IntoArray;
use i_tree::key::exp::KeyExpCollection;
use i_tree::key::tree::KeyExpTree;
use i_tree::map::sort::MapCollection;
use i_tree::map::tree::MapTree;
use i_tree::set::sort::{KeyValue, SetCollection};
use i_tree::set::tree::SetTree;
use i_tree::seg::exp::{SegExpCollection, SegRange};
use i_tree::seg::tree::SegExpTree;
use i_tree::ExpiredVal;
use i_tree::{ExpiredKey, EMPTY_REF};
use std::cell::RefCell;
use std::cmp::Ordering;
use std::collections::HashMap;
use std::io::Write;
use std::panic::{catch_unwind, AssertUnwindSafe};

thread_local! {
    static CMP_LOG: RefCell<Vec<(u8, u8)>> = RefCell::new(Vec::new());
    static FUSE: RefCell<i64> = RefCell::new(-1);
    static CALLBACKS: RefCell<u64> = RefCell::new(0);
}

fn callback_tick() {
    CALLBACKS.with(|c| *c.borrow_mut() += 1);
    let fire = FUSE.with(|f| {
        let mut f = f.borrow_mut();
        if *f < 0 {
            return false;
        }
        if *f == 0 {
            *f = -1;
            return true;
        }
        *f -= 1;
        false
    });
    if fire {
        panic!("injected callback panic");
    }
}

#[derive(Clone, Copy, Debug, Default)]
struct Key {
    k: u8,
    x: u8,
}
impl PartialEq for Key {
    fn eq(&self, o: &Self) -> bool {
        self.k == o.k
    }
}
impl Eq for Key {}
impl PartialOrd for Key {
    fn partial_cmp(&self, o: &Self) -> Option<Ordering> {
        Some(self.cmp(o))
    }
}
impl Ord for Key {
    fn cmp(&self, o: &Self) -> Ordering {
        CMP_LOG.with(|l| {
            l.borrow_mut().push((self.k, self.x));
            l.borrow_mut().push((o.k, o.x));
        });
        callback_tick();
        self.k.cmp(&o.k)
    }
}
impl ExpiredKey<u8> for Key {
    fn expiration(&self) -> u8 {
        callback_tick();
        self.x
    }
}

/// map / set key with an observable (and, for C18, panicking) comparison
#[derive(Clone, Copy, Debug, Default)]
struct CK(u8);
impl PartialEq for CK {
    fn eq(&self, o: &Self) -> bool {
        self.0 == o.0
    }
}
impl Eq for CK {}
impl PartialOrd for CK {
    fn partial_cmp(&self, o: &Self) -> Option<Ordering> {
        Some(self.cmp(o))
    }
}
impl Ord for CK {
    fn cmp(&self, o: &Self) -> Ordering {
        callback_tick();
        self.0.cmp(&o.0)
    }
}

#[derive(Clone, Copy, Debug, Default, PartialEq)]
struct Item {
    key: CK,
    payload: u8,
}
impl KeyValue<CK> for Item {
    fn key(&self) -> &CK {
        callback_tick();
        &self.key
    }
}

thread_local! {
    static FUSE_LAST: RefCell<i64> = RefCell::new(-1);
}
fn arm_fuse() -> bool {
    let v = FUSE_LAST.with(|f| *f.borrow());
    if v >= 0 {
        FUSE.with(|f| *f.borrow_mut() = v);
        true
    } else {
        false
    }
}
fn disarm_fuse() {
    FUSE.with(|f| *f.borrow_mut() = -1);
}

#[derive(Clone, Debug)]
struct Entry {
    k: u8,
    x: u8,
    v: u8,
    present: bool,
}

struct Ref {
    e: Vec<Entry>,
    timed: bool,
}
impl Ref {
    fn live(&self, e: &Entry, t: Option<u8>) -> bool {
        e.present && (!self.timed || t.map_or(true, |t| e.x > t))
    }
    fn lookup(&self, k: u8, t: Option<u8>) -> Option<u8> {
        self.e.iter().filter(|e| self.live(e, t) && e.k == k).map(|e| e.v).next()
    }
    fn pred(&self, t: Option<u8>, bound: &dyn Fn(u8) -> bool) -> Option<(u8, u8)> {
        self.e.iter().filter(|e| self.live(e, t) && bound(e.k)).max_by_key(|e| e.k).map(|e| (e.k, e.v))
    }
    fn succ(&self, k: u8) -> Option<(u8, u8)> {
        self.e.iter().filter(|e| e.present && e.k > k).min_by_key(|e| e.k).map(|e| (e.k, e.v))
    }
    fn before(&self, k: u8) -> Option<(u8, u8)> {
        self.e.iter().filter(|e| e.present && e.k < k).max_by_key(|e| e.k).map(|e| (e.k, e.v))
    }
    fn export(&self, t: u8) -> Vec<u8> {
        let mut l: Vec<&Entry> = self.e.iter().filter(|e| self.live(e, Some(t))).collect();
        l.sort_by_key(|e| e.k);
        l.iter().map(|e| e.v).collect()
    }
}

struct Out {
    findings: u32,
    retag: Option<&'static str>,
}
impl Out {
    fn mismatch(&mut self, i: usize, tag: &str, detail: String) {
        self.findings += 1;
        match self.retag {
            Some(t) => println!("MISMATCH {} {} ({}) {}", i, t, tag, detail),
            None => println!("MISMATCH {} {} {}", i, tag, detail),
        }
    }
}

/// structural check on a snapshot: (parent, left, right, red, key)
fn check_structure(root: u32, unused: &[u32], nodes: &[(u32, u32, u32, bool, u8)], strict: bool) -> Vec<(String, String)> {
    let n = nodes.len() as u32;
    let mut bad = Vec::new();
    let valid = |c: u32| c >= 1 && c < n;
    let mut in_tree = vec![false; n as usize];
    if root != EMPTY_REF {
        if !valid(root) {
            bad.push(("C02:inv".into(), format!("root {} out of range", root)));
            return bad;
        }
        if nodes[root as usize].0 != EMPTY_REF {
            bad.push(("C02:inv".into(), "root has a parent".into()));
        }
        // (slot, lo, hi, ) DFS with bounds; returns black height
        fn dfs(i: u32, lo: Option<u8>, hi: Option<u8>, nodes: &[(u32, u32, u32, bool, u8)], in_tree: &mut Vec<bool>, bad: &mut Vec<(String, String)>, strict: bool, depth: u32) -> i32 {
            let n = nodes.len() as u32;
            if depth > n {
                bad.push(("C02:inv".into(), "cycle".into()));
                return 0;
            }
            if in_tree[i as usize] {
                bad.push(("C02:inv".into(), format!("slot {} linked twice", i)));
                return 0;
            }
            in_tree[i as usize] = true;
            let (_, l, r, red, k) = nodes[i as usize];
            if let Some(lo) = lo {
                if (strict && k <= lo) || (!strict && k < lo) {
                    bad.push(("C02:inv".into(), format!("order: slot {} key {} below bound {}", i, k, lo)));
                }
            }
            if let Some(hi) = hi {
                if (strict && k >= hi) || (!strict && k > hi) {
                    bad.push(("C02:inv".into(), format!("order: slot {} key {} above bound {}", i, k, hi)));
                }
            }
            let mut hs = [0i32; 2];
            for (s, c) in [l, r].iter().enumerate() {
                let c = *c;
                if c == EMPTY_REF {
                    hs[s] = 0;
                    continue;
                }
                if !(c >= 1 && c < n) {
                    bad.push(("C02:inv".into(), format!("slot {} child link {} invalid (sentinel or out of range)", i, c)));
                    continue;
                }
                if nodes[c as usize].0 != i {
                    bad.push(("C02:inv".into(), format!("slot {} child {} has parent {}", i, c, nodes[c as usize].0)));
                }
                if red && nodes[c as usize].3 {
                    bad.push(("C02:inv".into(), format!("red slot {} has red child {}", i, c)));
                }
                hs[s] = if s == 0 { dfs(c, lo, Some(k), nodes, in_tree, bad, strict, depth + 1) } else { dfs(c, Some(k), hi, nodes, in_tree, bad, strict, depth + 1) };
            }
            if hs[0] != hs[1] {
                bad.push(("C02:inv".into(), format!("black heights differ under slot {}: {} vs {}", i, hs[0], hs[1])));
            }
            hs[0] + if red { 0 } else { 1 }
        }
        dfs(root, None, None, nodes, &mut in_tree, &mut bad, strict, 0);
    }
    // height bound
    let cnt = in_tree.iter().filter(|b| **b).count();
    fn height(i: u32, nodes: &[(u32, u32, u32, bool, u8)], d: u32) -> u32 {
        if i == EMPTY_REF || i as usize >= nodes.len() || d > nodes.len() as u32 {
            return 0;
        }
        1 + height(nodes[i as usize].1, nodes, d + 1).max(height(nodes[i as usize].2, nodes, d + 1))
    }
    let h = height(root, nodes, 0);
    if bad.is_empty() && (h as f64) > 2.0 * ((cnt + 1) as f64).log2() + 1.0 {
        bad.push(("C02:height".into(), format!("height {} with {} entries", h, cnt)));
    }
    // accounting
    let mut seen = vec![false; n as usize];
    for &u in unused {
        if !valid(u) {
            bad.push(("C11:accounting".into(), format!("free list holds {}", u)));
            continue;
        }
        if seen[u as usize] {
            bad.push(("C11:accounting".into(), format!("slot {} free twice", u)));
        }
        seen[u as usize] = true;
        if in_tree[u as usize] {
            bad.push(("C11:accounting".into(), format!("slot {} free and in use", u)));
        }
    }
    for i in 1..n as usize {
        if !seen[i] && !in_tree[i] {
            bad.push(("C11:accounting".into(), format!("slot {} lost", i)));
        }
    }
    bad
}

fn parse(path: &str) -> (String, usize, Vec<(String, HashMap<String, i64>)>) {
    let txt = std::fs::read_to_string(path).expect("read history");
    let mut kind = String::new();
    let mut cap = 0usize;
    let mut ops = Vec::new();
    for line in txt.lines() {
        let mut it = line.split_whitespace();
        match it.next() {
            Some("kind") => kind = it.next().unwrap().to_string(),
            Some("capacity") => cap = it.next().unwrap().parse().unwrap(),
            Some("fuse") => {
                let v: i64 = it.next().unwrap().parse().unwrap();
                FUSE_LAST.with(|f| *f.borrow_mut() = v);
            }
            Some("op") => {
                let name = it.next().unwrap().to_string();
                let mut m = HashMap::new();
                for kv in it {
                    let (k, v) = kv.split_once('=').unwrap();
                    m.insert(k.to_string(), v.parse::<i64>().unwrap());
                }
                ops.push((name, m));
            }
            _ => {}
        }
    }
    (kind, cap, ops)
}

fn begin(i: usize, name: &str) {
    println!("BEGIN {} {}", i, name);
    std::io::stdout().flush().ok();
}

fn run_key(cap: usize, ops: &[(String, HashMap<String, i64>)], out: &mut Out) {
    let mut tree: Option<KeyExpTree<Key, u8, u8>> = Some(KeyExpTree::new(cap));
    let mut rf = Ref { e: vec![], timed: true };
    let mut now: Option<u8> = None;
    let mut inserted = 0usize;
    for (i, (name, a)) in ops.iter().enumerate() {
        begin(i, name);
        let g = |k: &str| *a.get(k).unwrap_or(&0);
        let t = g("t") as u8;
        let probe = Key { k: g("k") as u8, x: g("x") as u8 };
        CMP_LOG.with(|l| l.borrow_mut().clear());
        let tr = tree.as_mut();
        if tr.is_none() {
            break;
        }
        let tr = tr.unwrap();
        let mut check_cmp = true;
        if i + 1 == ops.len() && name != "into_ordered_vec" && arm_fuse() {
            let d = g("d") as u8;
            let p9 = g("p9") as u16;
            let r = catch_unwind(AssertUnwindSafe(|| match name.as_str() {
                "insert" => tr.insert(probe, g("v") as u8, t),
                "get_value" => {
                    tr.get_value(t, probe);
                }
                "first_less" => {
                    tr.first_less(t, d, probe);
                }
                "first_less_or_equal_by" => {
                    tr.first_less_or_equal_by(t, d, |key: Key| {
                        callback_tick();
                        (2 * key.k as u16).cmp(&p9)
                    });
                }
                _ => {
                    tr.first_less_or_equal(t, d, probe);
                }
            }));
            disarm_fuse();
            println!("FUSED panicked={}", r.is_err());
            out.retag = Some("C18:valid-at-callback");
            snapshot_key(tr, i, out);
            out.retag = None;
            let mut post = rf.e.clone();
            if name == "insert" {
                post.push(Entry { k: probe.k, x: probe.x, v: g("v") as u8, present: true });
            }
            let rpost = Ref { e: post, timed: true };
            let mut keys: Vec<u8> = rf.e.iter().map(|e| e.k).collect();
            keys.push(probe.k);
            let (mut is_pre, mut is_post) = (true, true);
            for u in keys {
                match catch_unwind(AssertUnwindSafe(|| tr.get_value(t, Key { k: u, x: 0 }))) {
                    Ok(got) => {
                        if got != rf.lookup(u, Some(t)) {
                            is_pre = false;
                        }
                        if got != rpost.lookup(u, Some(t)) {
                            is_post = false;
                        }
                    }
                    Err(_) => out.mismatch(i, "C18:valid-at-callback", format!("lookup of {} panics after the caught panic", u)),
                }
            }
            if !is_pre && !is_post {
                out.mismatch(i, "C18:untorn-at-callback", "live contents are neither those before nor those after the operation".into());
            }
            break;
        }
        match name.as_str() {
            "insert" => {
                tr.insert(probe, g("v") as u8, t);
                rf.e.push(Entry { k: probe.k, x: probe.x, v: g("v") as u8, present: true });
                inserted += 1;
                now = Some(t);
            }
            "get_value" => {
                let r = tr.get_value(t, probe);
                let e = rf.lookup(probe.k, Some(t));
                if r != e {
                    out.mismatch(i, "C06:exact-lookup", format!("expected {:?} got {:?}", e, r));
                }
                now = Some(t);
            }
            "first_less" | "first_less_or_equal" | "first_less_or_equal_by" => {
                let d = g("d") as u8;
                let p9 = g("p9") as u16;
                let (r, e) = match name.as_str() {
                    "first_less" => (tr.first_less(t, d, probe), rf.pred(Some(t), &|k| k < probe.k)),
                    "first_less_or_equal" => (tr.first_less_or_equal(t, d, probe), rf.pred(Some(t), &|k| k <= probe.k)),
                    _ => {
                        check_cmp = true;
                        let r = tr.first_less_or_equal_by(t, d, |key: Key| {
                            CMP_LOG.with(|l| l.borrow_mut().push((key.k, key.x)));
                            callback_tick();
                            (2 * key.k as u16).cmp(&p9)
                        });
                        (r, rf.pred(Some(t), &|k| 2 * (k as u16) <= p9))
                    }
                };
                let e = e.map_or(d, |x| x.1);
                if r != e {
                    out.mismatch(i, "C01:predecessor-result", format!("expected {} got {}", e, r));
                }
                now = Some(t);
            }
            "clear" => {
                tr.clear();
                rf.e.clear();
                now = None;
                inserted = 0;
                check_cmp = false;
            }
            "is_empty" => {
                let r = tr.is_empty();
                if let Some(t0) = now {
                    if rf.e.iter().any(|e| rf.live(e, Some(t0))) && r {
                        out.mismatch(i, "C01:live-implies-not-empty", "is_empty with a live entry".into());
                    }
                }
                check_cmp = false;
            }
            "into_ordered_vec" => {
                let tr = tree.take().unwrap();
                let stored = stored_key(&tr).unwrap_or(inserted);
                let r = tr.into_ordered_vec(t);
                let e = rf.export(t);
                if r != e {
                    out.mismatch(i, "C07:export-live-in-order", format!("expected {:?} got {:?}", e, r));
                }
                if r.capacity() > 2 * stored + 8 {
                    out.mismatch(i, "C19:returned-capacity-linear", format!("capacity {} for {} stored entries", r.capacity(), stored));
                }
                check_cmp = false;
            }
            other => panic!("unknown key op {}", other),
        }
        if check_cmp {
            let log = CMP_LOG.with(|l| l.borrow().clone());
            let is_by = name == "first_less_or_equal_by";
            for (k, x) in log {
                let is_probe = !is_by && k == probe.k && x == probe.x;
                if !(is_probe || x > t) {
                    out.mismatch(i, "C20:only-live-keys-compared", format!("key ({},{}) compared at time {}", k, x, t));
                    break;
                }
            }
        }
        if let Some(tr) = tree.as_ref() {
            snapshot_key(tr, i, out);
        }
    }
    #[cfg(ishape_rust_itree_verif)]
    if std::env::var("VERIF_DUMP").is_ok() {
        if let Some(tr) = tree.as_ref() {
            let (root, unused, nodes) = tr.verif_snapshot();
            let ns: Vec<String> = nodes.iter().map(|n| format!("{}:{}:{}:{}:{}:{}:{}", n.0, n.1, n.2, n.3 as u8, n.4.k, n.4.x, n.5)).collect();
            println!("SNAP root={} unused={:?} nodes={}", root, unused, ns.join(","));
        }
    }
}

#[cfg(ishape_rust_itree_verif)]
fn stored_key(tr: &KeyExpTree<Key, u8, u8>) -> Option<usize> {
    let (root, _, nodes) = tr.verif_snapshot();
    fn cnt(i: u32, nodes: &[(u32, u32, u32, bool, Key, u8)], d: usize) -> usize {
        if i == EMPTY_REF || i as usize >= nodes.len() || d > nodes.len() {
            return 0;
        }
        1 + cnt(nodes[i as usize].1, nodes, d + 1) + cnt(nodes[i as usize].2, nodes, d + 1)
    }
    Some(cnt(root, &nodes, 0))
}
#[cfg(not(ishape_rust_itree_verif))]
fn stored_key(_: &KeyExpTree<Key, u8, u8>) -> Option<usize> {
    None
}

#[cfg(ishape_rust_itree_verif)]
fn snapshot_key(tr: &KeyExpTree<Key, u8, u8>, i: usize, out: &mut Out) {
    let (root, unused, nodes) = tr.verif_snapshot();
    let nodes: Vec<_> = nodes.iter().map(|n| (n.0, n.1, n.2, n.3, n.4.k)).collect();
    for (tag, d) in check_structure(root, &unused, &nodes, false) {
        out.mismatch(i, &tag, d);
    }
}
#[cfg(not(ishape_rust_itree_verif))]
fn snapshot_key(_: &KeyExpTree<Key, u8, u8>, _: usize, _: &mut Out) {}

#[cfg(ishape_rust_itree_verif)]
fn snapshot_map(tr: &MapTree<CK, u8>, i: usize, out: &mut Out) {
    let (root, unused, nodes) = tr.verif_snapshot();
    let nodes: Vec<_> = nodes.iter().map(|n| (n.0, n.1, n.2, n.3, n.4 .0)).collect();
    for (tag, d) in check_structure(root, &unused, &nodes, true) {
        out.mismatch(i, &tag, d);
    }
}
#[cfg(not(ishape_rust_itree_verif))]
fn snapshot_map(_: &MapTree<CK, u8>, _: usize, _: &mut Out) {}

#[cfg(ishape_rust_itree_verif)]
fn snapshot_set(tr: &SetTree<CK, Item>, i: usize, out: &mut Out) {
    let (root, unused, nodes) = tr.verif_snapshot();
    let nodes: Vec<_> = nodes.iter().map(|n| (n.0, n.1, n.2, n.3, n.4.key.0)).collect();
    for (tag, d) in check_structure(root, &unused, &nodes, true) {
        out.mismatch(i, &tag, d);
    }
}
#[cfg(not(ishape_rust_itree_verif))]
fn snapshot_set(_: &SetTree<CK, Item>, _: usize, _: &mut Out) {}

/// common driver for map and set through a tiny adapter
trait MS {
    fn insert(&mut self, k: u8, v: u8);
    fn delete(&mut self, k: u8);
    fn delete_by_index(&mut self, h: u32);
    fn get(&self, k: u8) -> Option<(u8, u8)>;
    fn at(&self, h: u32) -> (Option<u8>, u8);
    fn set_at(&mut self, h: u32, v: u8);
    fn fil(&self, k: u8) -> u32;
    fn fil_by(&self, p9: u16) -> u32;
    fn after(&self, h: u32) -> u32;
    fn before(&self, h: u32) -> u32;
    fn clear(&mut self);
    fn is_empty(&self) -> bool;
    fn snap(&self, i: usize, out: &mut Out);
    fn pid(&self) -> &'static str;
    fn dump(&self) -> String;
}
impl MS for MapTree<CK, u8> {
    fn insert(&mut self, k: u8, v: u8) { MapCollection::insert(self, CK(k), v) }
    fn delete(&mut self, k: u8) { MapCollection::delete(self, CK(k)) }
    fn delete_by_index(&mut self, h: u32) { MapCollection::delete_by_index(self, h) }
    fn get(&self, k: u8) -> Option<(u8, u8)> { self.get_value(CK(k)).map(|v| (k, *v)) }
    fn at(&self, h: u32) -> (Option<u8>, u8) { (None, *self.value_by_index(h)) }
    fn set_at(&mut self, h: u32, v: u8) { *self.value_by_index_mut(h) = v }
    fn fil(&self, k: u8) -> u32 { self.first_index_less(CK(k)) }
    fn fil_by(&self, p9: u16) -> u32 { self.first_index_less_by(|k| { callback_tick(); (2 * k.0 as u16).cmp(&p9) }) }
    fn after(&self, _h: u32) -> u32 { panic!("map has no neighbour steps") }
    fn before(&self, _h: u32) -> u32 { panic!("map has no neighbour steps") }
    fn clear(&mut self) { MapCollection::clear(self) }
    fn is_empty(&self) -> bool { MapCollection::is_empty(self) }
    fn snap(&self, i: usize, out: &mut Out) { snapshot_map(self, i, out) }
    fn pid(&self) -> &'static str { "C04" }
    #[cfg(ishape_rust_itree_verif)]
    fn dump(&self) -> String {
        let (root, unused, nodes) = self.verif_snapshot();
        let ns: Vec<String> = nodes.iter().map(|n| format!("{}:{}:{}:{}:{}:0:{}", n.0, n.1, n.2, n.3 as u8, n.4 .0, n.5)).collect();
        format!("SNAP root={} unused={:?} nodes={}", root, unused, ns.join(","))
    }
    #[cfg(not(ishape_rust_itree_verif))]
    fn dump(&self) -> String { String::new() }
}
impl MS for SetTree<CK, Item> {
    fn insert(&mut self, k: u8, v: u8) { SetCollection::insert(self, Item { key: CK(k), payload: v }) }
    fn delete(&mut self, k: u8) { SetCollection::delete(self, &CK(k)) }
    fn delete_by_index(&mut self, h: u32) { SetCollection::delete_by_index(self, h) }
    fn get(&self, k: u8) -> Option<(u8, u8)> { self.get_value(&CK(k)).map(|v| (v.key.0, v.payload)) }
    fn at(&self, h: u32) -> (Option<u8>, u8) { let v = self.value_by_index(h); (Some(v.key.0), v.payload) }
    fn set_at(&mut self, h: u32, v: u8) { self.value_by_index_mut(h).payload = v }
    fn fil(&self, k: u8) -> u32 { self.first_index_less(&CK(k)) }
    fn fil_by(&self, p9: u16) -> u32 { self.first_index_less_by(|k| { callback_tick(); (2 * k.0 as u16).cmp(&p9) }) }
    fn after(&self, h: u32) -> u32 { self.index_after(h) }
    fn before(&self, h: u32) -> u32 { self.index_before(h) }
    fn clear(&mut self) { SetCollection::clear(self) }
    fn is_empty(&self) -> bool { SetCollection::is_empty(self) }
    fn snap(&self, i: usize, out: &mut Out) { snapshot_set(self, i, out) }
    fn pid(&self) -> &'static str { "C05" }
    #[cfg(ishape_rust_itree_verif)]
    fn dump(&self) -> String {
        let (root, unused, nodes) = self.verif_snapshot();
        let ns: Vec<String> = nodes.iter().map(|n| format!("{}:{}:{}:{}:{}:0:{}", n.0, n.1, n.2, n.3 as u8, n.4.key.0, n.4.payload)).collect();
        format!("SNAP root={} unused={:?} nodes={}", root, unused, ns.join(","))
    }
    #[cfg(not(ishape_rust_itree_verif))]
    fn dump(&self) -> String { String::new() }
}

fn run_ms<T: MS>(tr: &mut T, ops: &[(String, HashMap<String, i64>)], out: &mut Out) {
    let mut rf = Ref { e: vec![], timed: false };
    let pid = tr.pid();
    for (i, (name, a)) in ops.iter().enumerate() {
        begin(i, name);
        let g = |k: &str| *a.get(k).unwrap_or(&0);
        let k = g("k") as u8;
        if i + 1 == ops.len() && arm_fuse() {
            // C18: the last operation runs with a callback that panics at its N-th invocation; the panic is caught and the
            // collection must be structurally valid and hold the contents before or after the operation
            let p9 = g("p9") as u16;
            let r = catch_unwind(AssertUnwindSafe(|| match name.as_str() {
                "insert" => tr.insert(k, g("v") as u8),
                "delete" => tr.delete(k),
                "first_index_less_by" => {
                    tr.fil_by(p9);
                }
                "get_value" => {
                    tr.get(k);
                }
                _ => {
                    tr.fil(k);
                }
            }));
            disarm_fuse();
            println!("FUSED panicked={}", r.is_err());
            out.retag = Some("C18:valid-at-callback");
            tr.snap(i, out);
            out.retag = None;
            let mut post = rf.e.clone();
            match name.as_str() {
                "insert" => post.push(Entry { k, x: 0, v: g("v") as u8, present: true }),
                "delete" => {
                    for e in post.iter_mut() {
                        if e.k == k {
                            e.present = false;
                        }
                    }
                }
                _ => {}
            }
            let rpost = Ref { e: post, timed: false };
            let mut keys: Vec<u8> = rf.e.iter().map(|e| e.k).collect();
            keys.push(k);
            let (mut is_pre, mut is_post) = (true, true);
            for u in keys {
                let got = catch_unwind(AssertUnwindSafe(|| tr.get(u)));
                match got {
                    Ok(got) => {
                        if got != rf.lookup(u, None).map(|v| (u, v)) {
                            is_pre = false;
                        }
                        if got != rpost.lookup(u, None).map(|v| (u, v)) {
                            is_post = false;
                        }
                    }
                    Err(_) => {
                        out.mismatch(i, "C18:valid-at-callback", format!("lookup of {} panics after the caught panic", u));
                        is_pre = true;
                    }
                }
            }
            if !is_pre && !is_post {
                out.mismatch(i, "C18:untorn-at-callback", "contents are neither those before nor those after the operation".into());
            }
            break;
        }
        match name.as_str() {
            "insert" => {
                tr.insert(k, g("v") as u8);
                rf.e.push(Entry { k, x: 0, v: g("v") as u8, present: true });
            }
            "delete" => {
                tr.delete(k);
                for e in rf.e.iter_mut() {
                    if e.k == k { e.present = false; }
                }
            }
            "get_value" => {
                let r = tr.get(k);
                let e = rf.lookup(k, None).map(|v| (k, v));
                if r != e {
                    out.mismatch(i, &format!("{}:get", pid), format!("expected {:?} got {:?}", e, r));
                }
            }
            "is_empty" => {
                let e = !rf.e.iter().any(|e| e.present);
                if tr.is_empty() != e {
                    out.mismatch(i, &format!("{}:is_empty", pid), format!("expected {}", e));
                }
            }
            "clear" => {
                tr.clear();
                rf.e.clear();
            }
            "first_index_less" | "first_index_less_by" | "pred_read" | "pred_write" | "pred_delete" | "pred_after" | "pred_before" | "pred_insert_read" => {
                let p9 = g("p9") as u16;
                let (h, e) = if name == "first_index_less_by" {
                    (tr.fil_by(p9), rf.pred(None, &|x| 2 * (x as u16) <= p9))
                } else {
                    (tr.fil(k), rf.pred(None, &|x| x <= k))
                };
                if (h == EMPTY_REF) != e.is_none() {
                    out.mismatch(i, "C08:pred-handle-empty-iff-none", format!("handle {} expected {:?}", h, e));
                }
                if h != EMPTY_REF && e.is_some() {
                    let (pk, pv) = e.unwrap();
                    let (gk, gv) = tr.at(h);
                    if gv != pv || gk.map_or(false, |x| x != pk) {
                        out.mismatch(i, "C08:read-through-handle", format!("expected ({},{}) got ({:?},{})", pk, pv, gk, gv));
                    }
                    match name.as_str() {
                        "pred_write" => {
                            tr.set_at(h, g("nv") as u8);
                            for e in rf.e.iter_mut() {
                                if e.present && e.k == pk { e.v = g("nv") as u8; }
                            }
                        }
                        "pred_insert_read" => {
                            let (k2, v2) = (g("k2") as u8, g("v2") as u8);
                            tr.insert(k2, v2);
                            rf.e.push(Entry { k: k2, x: 0, v: v2, present: true });
                            let (gk, gv) = tr.at(h);
                            if gv != pv || gk.map_or(false, |x| x != pk) {
                                out.mismatch(i, "C17:handle-stable-read", format!("expected ({},{}) got ({:?},{})", pk, pv, gk, gv));
                            }
                            if tr.fil(pk) != h {
                                out.mismatch(i, "C17:handle-stable-lookup", format!("handle {} became {}", h, tr.fil(pk)));
                            }
                        }
                        "pred_delete" => {
                            tr.delete_by_index(h);
                            for e in rf.e.iter_mut() {
                                if e.k == pk { e.present = false; }
                            }
                        }
                        "pred_after" | "pred_before" => {
                            let after = name == "pred_after";
                            let h2 = if after { tr.after(h) } else { tr.before(h) };
                            let e2 = if after { rf.succ(pk) } else { rf.before(pk) };
                            if (h2 == EMPTY_REF) != e2.is_none() {
                                out.mismatch(i, "C09:neighbour-end-is-sentinel", format!("handle {} expected {:?}", h2, e2));
                            } else if let Some((nk, nv)) = e2 {
                                let (gk, gv) = tr.at(h2);
                                if gv != nv || gk.map_or(false, |x| x != nk) {
                                    out.mismatch(i, "C09:neighbour", format!("expected ({},{}) got ({:?},{})", nk, nv, gk, gv));
                                }
                            }
                        }
                        _ => {}
                    }
                }
            }
            other => panic!("unknown op {}", other),
        }
        tr.snap(i, out);
    }
    if std::env::var("VERIF_DUMP").is_ok() {
        println!("{}", tr.dump());
    }
}

// ------------------------------------------------------------------------------------------------ segment tree
#[derive(Clone, Copy, Debug)]
struct SVal {
    id: u8,
    exp: u8,
}
impl ExpiredVal<u8> for SVal {
    fn expiration(&self) -> u8 {
        callback_tick();
        self.exp
    }
}

fn run_seg(lo: i32, hi: i32, ops: &[(String, HashMap<String, i64>)], out: &mut Out) {
    let mut t: SegExpTree<i32, u8, SVal> = match SegExpTree::new(SegRange { min: lo, max: hi }) {
        Some(t) => t,
        None => {
            out.mismatch(0, "C14:builds", "construction failed".into());
            return;
        }
    };
    let span = (hi as i64 - lo as i64 + 1) as u64;
    let scale = (64 - (span - 1).leading_zeros()).saturating_sub(5);
    let bucket = |x: i64| ((x - lo as i64) >> scale) as i64;
    let mut vals: Vec<(u8, u8, i64, i64)> = vec![]; // id, exp, a, b
    for (i, (name, a)) in ops.iter().enumerate() {
        begin(i, name);
        let g = |k: &str| *a.get(k).unwrap_or(&0);
        match name.as_str() {
            "insert" => {
                t.insert_by_range(SegRange { min: g("a") as i32, max: g("b") as i32 }, SVal { id: g("id") as u8, exp: g("exp") as u8 });
                vals.push((g("id") as u8, g("exp") as u8, g("a"), g("b")));
                #[cfg(ishape_rust_itree_verif)]
                {
                    let mut n = 0;
                    for j in 0..t.verif_places() {
                        n += t.verif_copies_at(j).iter().filter(|c| c.0.id == g("id") as u8).count();
                    }
                    if n == 0 || n > 8 {
                        out.mismatch(i, "C15:at-most-8-copies", format!("{} copies", n));
                    }
                }
            }
            "clear" => {
                t.clear();
                vals.clear();
                #[cfg(ishape_rust_itree_verif)]
                for j in 0..t.verif_places() {
                    if !t.verif_copies_at(j).is_empty() {
                        out.mismatch(i, "C12:clear-empties-every-place", format!("place {} not empty", j));
                        break;
                    }
                }
            }
            "query" => {
                let (c, d, time) = (g("c"), g("d"), g("time") as u8);
                let consume = g("consume");
                let full = consume >= 255 || g("full") == 1;
                let mut got: Vec<SVal> = vec![];
                {
                    let mut it = t.iter_by_range(SegRange { min: c as i32, max: d as i32 }, time);
                    let mut n = 0i64;
                    loop {
                        if !full && n >= consume {
                            break;
                        }
                        match it.next() {
                            Some(v) => got.push(v),
                            None => break,
                        }
                        n += 1;
                        if n > 1000 {
                            out.mismatch(i, "C10:hang", "iterator does not terminate".into());
                            break;
                        }
                    }
                }
                for v in &vals {
                    let want = v.1 >= time && bucket(v.2) <= bucket(d) && bucket(c) <= bucket(v.3);
                    let cnt = got.iter().filter(|x| x.id == v.0).count();
                    if full && cnt != want as usize {
                        out.mismatch(i, "C03:each-live-overlapping-value-exactly-once", format!("value {} yielded {} times, expected {}", v.0, cnt, want as usize));
                    }
                    if !full && cnt > want as usize {
                        out.mismatch(i, "C03:partial-consumption-is-duplicate-free-subset", format!("value {} yielded {} times, expected at most {}", v.0, cnt, want as usize));
                    }
                }
                if got.iter().any(|x| !vals.iter().any(|v| v.0 == x.id)) {
                    out.mismatch(i, "C03:yields-nothing-else", "unknown value".into());
                }
                #[cfg(ishape_rust_itree_verif)]
                if full && c == lo as i64 && d == hi as i64 {
                    for j in 0..t.verif_places() {
                        for cp in t.verif_copies_at(j) {
                            if cp.0.exp < time {
                                out.mismatch(i, "C16:no-expired-copy-left-after-whole-domain-query", format!("place {} keeps value {} exp {} at time {}", j, cp.0.id, cp.0.exp, time));
                            }
                        }
                    }
                    for v in &vals {
                        if v.1 >= time {
                            let m = t.verif_place_mask(v.2, v.3);
                            let mut n = 0;
                            for j in 0..t.verif_places() {
                                n += t.verif_copies_at(j).iter().filter(|c| c.0.id == v.0).count();
                            }
                            if n as u32 != m.count_ones() {
                                out.mismatch(i, "C16:unexpired-copies-kept", format!("value {} has {} copies, mask has {}", v.0, n, m.count_ones()));
                            }
                        }
                    }
                }
            }
            other => panic!("unknown seg op {}", other),
        }
    }
}

// ------------------------------------------------------------------------------------------------ reachability search
// Given the canonical form of a tree state found by the solver (pre-state of an inductive step), search breadth-first over
// public-API histories (inserts / deletes / lazy-expiry queries over a small universe of entries) for one that builds a state
// with the same canonical form.  This only confirms reachability of one solver model; it decides nothing by itself.
fn canon(root: u32, nodes: &[(u32, u32, u32, bool, u8, u8)]) -> String {
    fn go(i: u32, nodes: &[(u32, u32, u32, bool, u8, u8)], out: &mut String, depth: usize) {
        if i == EMPTY_REF || i as usize >= nodes.len() || depth > nodes.len() {
            out.push('-');
            return;
        }
        let n = nodes[i as usize];
        out.push_str(&format!("({},{},{}", n.4, n.5, if n.3 { 'R' } else { 'B' }));
        go(n.1, nodes, out, depth + 1);
        go(n.2, nodes, out, depth + 1);
        out.push(')');
    }
    let mut s = String::new();
    go(root, nodes, &mut s, 0);
    s
}

#[derive(Clone, Debug, PartialEq)]
enum SOp {
    Ins(usize),
    Del(usize),
    Get(usize),
    Tick,
}

#[cfg(ishape_rust_itree_verif)]
fn search(path: &str) {
    let txt = std::fs::read_to_string(path).expect("read search file");
    let mut kind = String::new();
    let mut target = String::new();
    let mut ents: Vec<(u8, u8)> = vec![];
    let mut times: Vec<u8> = vec![0];
    let mut limit = 300000usize;
    for line in txt.lines() {
        let mut it = line.split_whitespace();
        match it.next() {
            Some("kind") => kind = it.next().unwrap().into(),
            Some("canon") => target = it.next().unwrap_or("-").into(),
            Some("entry") => {
                let k: u8 = it.next().unwrap().parse().unwrap();
                let x: u8 = it.next().unwrap().parse().unwrap();
                ents.push((k, x));
            }
            Some("times") => times = it.map(|x| x.parse().unwrap()).collect(),
            Some("limit") => limit = it.next().unwrap().parse().unwrap(),
            _ => {}
        }
    }
    let timed = kind == "key";
    // run a history, return (canonical form, time index, present flags) or None when it leaves the contract
    let run = |h: &[SOp]| -> Option<(String, usize)> {
        let mut ti = 0usize;
        match kind.as_str() {
            "key" => {
                let mut t: KeyExpTree<Key, u8, u8> = KeyExpTree::new(0);
                let mut live: Vec<(u8, u8)> = vec![];
                for op in h {
                    let now = times[ti];
                    match op {
                        SOp::Ins(i) => {
                            let (k, x) = ents[*i];
                            if x < now || live.iter().any(|e| e.0 == k && e.1 > now) {
                                return None;
                            }
                            t.insert(Key { k, x }, k ^ 0x55, now);
                            live.push((k, x));
                        }
                        SOp::Get(i) => {
                            t.get_value(now, Key { k: ents[*i].0, x: 0 });
                        }
                        SOp::Tick => {
                            if ti + 1 >= times.len() {
                                return None;
                            }
                            ti += 1;
                        }
                        SOp::Del(_) => return None,
                    }
                }
                let (root, _, nodes) = t.verif_snapshot();
                let nodes: Vec<_> = nodes.iter().map(|n| (n.0, n.1, n.2, n.3, n.4.k, n.4.x)).collect();
                Some((canon(root, &nodes), ti))
            }
            "map" => {
                let mut t: MapTree<CK, u8> = MapTree::new(0);
                let mut present = vec![false; ents.len()];
                for op in h {
                    match op {
                        SOp::Ins(i) => {
                            if present[*i] {
                                return None;
                            }
                            MapCollection::insert(&mut t, CK(ents[*i].0), ents[*i].0 ^ 0x55);
                            present[*i] = true;
                        }
                        SOp::Del(i) => {
                            if !present[*i] {
                                return None;
                            }
                            MapCollection::delete(&mut t, CK(ents[*i].0));
                            present[*i] = false;
                        }
                        _ => return None,
                    }
                }
                let (root, _, nodes) = t.verif_snapshot();
                let nodes: Vec<_> = nodes.iter().map(|n| (n.0, n.1, n.2, n.3, n.4 .0, 0u8)).collect();
                Some((canon(root, &nodes), 0))
            }
            _ => {
                let mut t: SetTree<CK, Item> = SetTree::new(0);
                let mut present = vec![false; ents.len()];
                for op in h {
                    match op {
                        SOp::Ins(i) => {
                            if present[*i] {
                                return None;
                            }
                            SetCollection::insert(&mut t, Item { key: CK(ents[*i].0), payload: ents[*i].0 ^ 0x55 });
                            present[*i] = true;
                        }
                        SOp::Del(i) => {
                            if !present[*i] {
                                return None;
                            }
                            SetCollection::delete(&mut t, &CK(ents[*i].0));
                            present[*i] = false;
                        }
                        _ => return None,
                    }
                }
                let (root, _, nodes) = t.verif_snapshot();
                let nodes: Vec<_> = nodes.iter().map(|n| (n.0, n.1, n.2, n.3, n.4.key.0, 0u8)).collect();
                Some((canon(root, &nodes), 0))
            }
        }
    };
    let mut seen: std::collections::HashSet<(String, usize)> = std::collections::HashSet::new();
    let mut queue: std::collections::VecDeque<Vec<SOp>> = std::collections::VecDeque::new();
    queue.push_back(vec![]);
    seen.insert((String::from("-"), 0));
    let mut states = 0usize;
    if target == "-" {
        println!("FOUND");
        return;
    }
    while let Some(h) = queue.pop_front() {
        states += 1;
        if states > limit {
            break;
        }
        let mut cands: Vec<SOp> = vec![];
        for i in 0..ents.len() {
            cands.push(SOp::Ins(i));
            if timed {
                cands.push(SOp::Get(i));
            } else {
                cands.push(SOp::Del(i));
            }
        }
        if timed {
            cands.push(SOp::Tick);
        }
        for c in cands {
            let mut h2 = h.clone();
            h2.push(c);
            if let Some((cf, ti)) = run(&h2) {
                if cf == target && (!timed || ti + 1 == times.len()) {
                    print!("FOUND");
                    let mut ti2 = 0;
                    for op in &h2 {
                        match op {
                            SOp::Ins(i) => print!(" ins:{}:{}:{}", ents[*i].0, ents[*i].1, times[ti2]),
                            SOp::Del(i) => print!(" del:{}", ents[*i].0),
                            SOp::Get(i) => print!(" get:{}:{}", ents[*i].0, times[ti2]),
                            SOp::Tick => ti2 += 1,
                        }
                    }
                    println!();
                    println!("STATES {}", states);
                    return;
                }
                if seen.insert((cf, ti)) {
                    queue.push_back(h2);
                }
            }
        }
    }
    println!("NOTFOUND");
    println!("STATES {}", states);
}

#[cfg(not(ishape_rust_itree_verif))]
fn search(_: &str) {
    println!("NOTFOUND");
}

fn main() {
    let args: Vec<String> = std::env::args().collect();
    if args[1] == "--search" {
        search(&args[2]);
        return;
    }
    let (kind, cap, ops) = parse(&args[1]);
    let mut out = Out { findings: 0, retag: None };
    let r = catch_unwind(AssertUnwindSafe(|| match kind.as_str() {
        "key" => run_key(cap, &ops, &mut out),
        "map" => {
            let mut t: MapTree<CK, u8> = MapTree::new(cap);
            run_ms(&mut t, &ops, &mut out)
        }
        "set" => {
            let mut t: SetTree<CK, Item> = SetTree::new(cap);
            run_ms(&mut t, &ops, &mut out)
        }
        "seg" => {
            // `capacity` carries lo, the first pseudo-op `domain lo=.. hi=..` carries the domain
            let lo = *ops[0].1.get("lo").unwrap() as i32;
            let hi = *ops[0].1.get("hi").unwrap() as i32;
            run_seg(lo, hi, &ops[1..], &mut out)
        }
        k => panic!("unknown kind {}", k),
    }));
    if let Err(e) = r {
        let msg = e.downcast_ref::<String>().cloned().or_else(|| e.downcast_ref::<&str>().map(|s| s.to_string())).unwrap_or_default();
        println!("PANIC {}", msg.replace('\n', " "));
        out.findings += 1;
    }
    println!("DONE {}", out.findings);
    std::process::exit(if out.findings > 0 { 3 } else { 0 });
}
