use i_tree::seg::exp::{SegExpCollection, SegRange};
use i_tree::seg::tree::verif::place_mask;
use i_tree::seg::tree::SegExpTree;
use i_tree::ExpiredVal;

#[derive(Clone, Copy)]
struct Val {
    id: u8,
    exp: u8,
}
impl ExpiredVal<u8> for Val {
    fn expiration(&self) -> u8 {
        self.exp
    }
}

type Tree = SegExpTree<i32, u8, Val>;

fn any_range(lo: i32, hi: i32) -> (i32, i32) {
    let a: i32 = kani::any();
    let b: i32 = kani::any();
    kani::assume(lo <= a && a <= b && b <= hi);
    (a, b)
}

/// history: insert v1 [insert v2] ; query q1 at t1 consuming k items then dropped ; query q2 at t2 >= t1 fully consumed.
/// `shift` is the layout scale of the domain (bucket = (coordinate - lo) >> shift).
fn seg_history(lo: i32, hi: i32, shift: u32, two: bool, partial_first: bool) {
    let mut t: Tree = SegExpTree::new(SegRange { min: lo, max: hi }).unwrap();
    let bucket = |x: i32| ((x - lo) >> shift) as u32;
    let (a1, b1) = any_range(lo, hi);
    let e1: u8 = kani::any();
    t.insert_by_range(SegRange { min: a1, max: b1 }, Val { id: 1, exp: e1 });
    let (a2, b2) = any_range(lo, hi);
    let e2: u8 = kani::any();
    if two {
        t.insert_by_range(SegRange { min: a2, max: b2 }, Val { id: 2, exp: e2 });
    }
    let t1: u8 = kani::any();
    let t2: u8 = kani::any();
    kani::assume(t1 <= t2);
    if partial_first {
        let (c, d) = any_range(lo, hi);
        let k: u8 = kani::any();
        kani::assume(k <= 2);
        let mut seen1 = 0;
        let mut seen2 = 0;
        let mut it = t.iter_by_range(SegRange { min: c, max: d }, t1);
        let mut n = 0;
        while n < k {
            match it.next() {
                Some(v) => {
                    // a partially consumed query yields a duplicate-free sub-multiset of the full answer
                    if v.id == 1 {
                        seen1 += 1;
                        assert!(e1 >= t1 && bucket(a1) <= bucket(d) && bucket(c) <= bucket(b1));
                    } else {
                        seen2 += 1;
                        assert!(two && v.id == 2 && e2 >= t1 && bucket(a2) <= bucket(d) && bucket(c) <= bucket(b2));
                    }
                }
                None => break,
            }
            n += 1;
        }
        assert!(seen1 <= 1 && seen2 <= 1);
    }
    let (c, d) = any_range(lo, hi);
    let mut n1 = 0;
    let mut n2 = 0;
    for v in t.iter_by_range(SegRange { min: c, max: d }, t2) {
        if v.id == 1 {
            assert!(v.exp == e1);
            n1 += 1;
        } else {
            assert!(v.id == 2 && v.exp == e2);
            n2 += 1;
        }
    }
    let want1 = e1 >= t2 && bucket(a1) <= bucket(d) && bucket(c) <= bucket(b1);
    let want2 = two && e2 >= t2 && bucket(a2) <= bucket(d) && bucket(c) <= bucket(b2);
    assert_eq!(n1, if want1 { 1 } else { 0 });
    assert_eq!(n2, if want2 { 1 } else { 0 });
    kani::cover!(want1 && want2);
    kani::cover!(n1 == 0 && e1 >= t2);
    std::mem::forget(t);
}

/// C03 on the 32-point domain: bucket = coordinate, so the answer is exactly the intersecting unexpired values.
#[kani::proof]
fn c03_domain32_one_value() {
    seg_history(0, 31, 0, false, false);
}

#[kani::proof]
fn c03_domain32_two_values_partial_first() {
    seg_history(0, 31, 0, true, true);
}

/// C03 on a negative, non-power-of-two domain of 128 points (bucket width 4).
#[kani::proof]
fn c03_domain128_two_values() {
    seg_history(-50, 77, 2, true, false);
}

/// C15 through the tree: one insert on [0,31] stores exactly popcount(place mask) <= 8 copies, at the places of the mask.
#[kani::proof]
fn c15_tree_copies_per_insert() {
    let mut t: Tree = SegExpTree::new(SegRange { min: 0, max: 31 }).unwrap();
    let (a, b) = any_range(0, 31);
    t.insert_by_range(SegRange { min: a, max: b }, Val { id: 1, exp: kani::any() });
    let m = place_mask(a as u32, b as u32);
    assert!(m.count_ones() <= 8);
    // for every place j: exactly one copy iff bit j of the place mask is set (so the copy count is popcount(mask) <= 8)
    let j: usize = kani::any();
    kani::assume(j < t.verif_places());
    assert_eq!(t.verif_copies_at(j).len(), ((m >> j) & 1) as usize);
    assert!(m >> t.verif_places() == 0);
    std::mem::forget(t);
}

/// C16: after a fully consumed whole-domain query at time t only copies of values with expiration >= t are stored.
fn seg_purge(lo: i32, hi: i32, shift: u32, two: bool) {
    let mut t: Tree = SegExpTree::new(SegRange { min: lo, max: hi }).unwrap();
    let bucket = |x: i32| ((x - lo) >> shift) as u32;
    let (a1, b1) = any_range(lo, hi);
    let e1: u8 = kani::any();
    t.insert_by_range(SegRange { min: a1, max: b1 }, Val { id: 1, exp: e1 });
    let m1 = place_mask(bucket(a1), bucket(b1));
    let e2: u8 = kani::any();
    let mut m2 = 0u64;
    if two {
        let (a2, b2) = any_range(lo, hi);
        t.insert_by_range(SegRange { min: a2, max: b2 }, Val { id: 2, exp: e2 });
        m2 = place_mask(bucket(a2), bucket(b2));
    }
    let time: u8 = kani::any();
    let mut it = t.iter_by_range(SegRange { min: lo, max: hi }, time);
    let mut guard = 0;
    while it.next().is_some() {
        guard += 1;
        assert!(guard <= 2);
    }
    // at every place j: the stored copies are exactly those of the values with expiration >= time (none expired, none lost)
    let j: usize = kani::any();
    kani::assume(j < t.verif_places());
    let copies = t.verif_copies_at(j);
    let want = (if e1 >= time { (m1 >> j) & 1 } else { 0 }) + (if two && e2 >= time { (m2 >> j) & 1 } else { 0 });
    assert_eq!(copies.len() as u64, want);
    let q: usize = kani::any();
    kani::assume(q < copies.len());
    assert!(copies[q].0.exp >= time);
    kani::cover!(e1 < time && (m1 >> j) & 1 == 1);
    std::mem::forget(t);
}

#[kani::proof]
fn c16_purge_domain32_two_values() {
    seg_purge(0, 31, 0, true);
}

#[kani::proof]
fn c16_purge_domain128_one_value() {
    seg_purge(-50, 77, 2, false);
}

/// C12: clear leaves every place empty, exactly like a new tree; later queries return nothing.
#[kani::proof]
fn c12_seg_clear_equals_new() {
    let mut t: Tree = SegExpTree::new(SegRange { min: 0, max: 31 }).unwrap();
    let (a1, b1) = any_range(0, 31);
    t.insert_by_range(SegRange { min: a1, max: b1 }, Val { id: 1, exp: kani::any() });
    if kani::any() {
        let (a2, b2) = any_range(0, 31);
        t.insert_by_range(SegRange { min: a2, max: b2 }, Val { id: 2, exp: kani::any() });
    }
    t.clear();
    let fresh: Tree = SegExpTree::new(SegRange { min: 0, max: 31 }).unwrap();
    assert_eq!(t.verif_places(), fresh.verif_places());
    let j: usize = kani::any();
    kani::assume(j < t.verif_places());
    assert_eq!(t.verif_copies_at(j).len(), 0);
    assert_eq!(fresh.verif_copies_at(j).len(), 0);
    let (c, d) = any_range(0, 31);
    assert!(t.iter_by_range(SegRange { min: c, max: d }, kani::any()).next().is_none());
    // the caller's clock may restart: a value inserted after clear is found at an earlier time than before
    let (a3, b3) = any_range(0, 31);
    t.insert_by_range(SegRange { min: a3, max: b3 }, Val { id: 3, exp: 5 });
    let mut n = 0;
    for v in t.iter_by_range(SegRange { min: a3, max: b3 }, 0) {
        assert!(v.id == 3);
        n += 1;
    }
    assert_eq!(n, 1);
    std::mem::forget(t);
    std::mem::forget(fresh);
}

/// C14 through the public API: Some iff more than 16 points; single-point inserts/queries at lo, hi are memory safe and found.
#[kani::proof]
fn c14_new_some_iff_more_than_16_points() {
    let lo: i32 = kani::any();
    let hi: i32 = kani::any();
    kani::assume(lo <= hi);
    let len = hi as i64 - lo as i64 + 1;
    kani::assume(len <= 40);
    let t: Option<Tree> = SegExpTree::new(SegRange { min: lo, max: hi });
    assert_eq!(t.is_some(), len > 16);
    if let Some(mut t) = t {
        let p: i32 = if kani::any() { lo } else { hi };
        t.insert_by_range(SegRange { min: p, max: p }, Val { id: 1, exp: 9 });
        let mut n = 0;
        for _ in t.iter_by_range(SegRange { min: p, max: p }, 0) {
            n += 1;
        }
        assert_eq!(n, 1);
        std::mem::forget(t);
    }
}

// ------------------------------------------------------------------------------------------------ C18 (segment tree)
static mut FUSE: u8 = 255;
static mut FIRED: bool = false;
static mut TREE_PTR: *const SegExpTree<i32, u8, PVal> = std::ptr::null();
static mut INS: [(u8, u8, u64); 2] = [(0, 0, 0); 2]; // (id, exp, place mask) of the inserted values
static mut NINS: usize = 0;
static mut QTIME: u8 = 0;

#[derive(Clone, Copy)]
struct PVal {
    id: u8,
    exp: u8,
}
impl ExpiredVal<u8> for PVal {
    fn expiration(&self) -> u8 {
        unsafe {
            if FUSE == 0 && !TREE_PTR.is_null() {
                // a panic here unwinds out of Iterator::next; what the caller keeps is the tree as it is now:
                // every stored copy belongs to an inserted value and carries its full mask, and every value that is not
                // expired at the query time still has exactly one copy at each of its places (nothing half-removed)
                let t = &*TREE_PTR;
                let j: usize = kani::any();
                kani::assume(j < t.verif_places());
                let copies = t.verif_copies_at(j);
                let mut c = [0u8; 2];
                let mut q = 0;
                while q < copies.len() {
                    let (v, m) = copies[q];
                    let mut known = false;
                    let mut i = 0;
                    while i < NINS {
                        if INS[i].0 == v.id {
                            known = true;
                            assert!(v.exp == INS[i].1 && m == INS[i].2 && (m >> j) & 1 == 1);
                            c[i] += 1;
                        }
                        i += 1;
                    }
                    assert!(known);
                    q += 1;
                }
                let mut i = 0;
                while i < NINS {
                    if INS[i].1 >= QTIME {
                        assert!(c[i] as u64 == (INS[i].2 >> j) & 1);
                    } else {
                        assert!(c[i] <= 1);
                    }
                    i += 1;
                }
                FIRED = true;
            }
            if FUSE != 255 && FUSE > 0 {
                FUSE -= 1;
            }
        }
        self.exp
    }
}

#[kani::proof]
fn c18_seg_callback_state() {
    let mut t: SegExpTree<i32, u8, PVal> = SegExpTree::new(SegRange { min: 0, max: 31 }).unwrap();
    let (a1, b1) = any_range(0, 31);
    let e1: u8 = kani::any();
    t.insert_by_range(SegRange { min: a1, max: b1 }, PVal { id: 1, exp: e1 });
    let (a2, b2) = any_range(0, 31);
    let e2: u8 = kani::any();
    t.insert_by_range(SegRange { min: a2, max: b2 }, PVal { id: 2, exp: e2 });
    let time: u8 = kani::any();
    let f: u8 = kani::any();
    kani::assume(f < 4);
    unsafe {
        INS = [(1, e1, place_mask(a1 as u32, b1 as u32)), (2, e2, place_mask(a2 as u32, b2 as u32))];
        NINS = 2;
        QTIME = time;
        TREE_PTR = &t as *const _;
        FUSE = f;
    }
    let (c, d) = any_range(0, 31);
    let mut n = 0;
    for _ in t.iter_by_range(SegRange { min: c, max: d }, time) {
        n += 1;
        assert!(n <= 2);
    }
    kani::cover!(unsafe { FIRED });
    unsafe {
        FUSE = 255;
    }
    std::mem::forget(t);
}

// ------------------------------------------------------------------------------------------------ cost probes (not registered)
#[kani::proof]
fn probe_insert_only() {
    let mut t: Tree = SegExpTree::new(SegRange { min: 0, max: 31 }).unwrap();
    let (a, b) = any_range(0, 31);
    t.insert_by_range(SegRange { min: a, max: b }, Val { id: 1, exp: kani::any() });
    std::mem::forget(t);
}

#[kani::proof]
fn probe_new_only() {
    let t: Tree = SegExpTree::new(SegRange { min: 0, max: 31 }).unwrap();
    assert!(t.verif_places() == 63);
    std::mem::forget(t);
}

#[kani::proof]
fn probe_concrete_insert_symbolic_query() {
    let mut t: Tree = SegExpTree::new(SegRange { min: 0, max: 31 }).unwrap();
    let e1: u8 = kani::any();
    t.insert_by_range(SegRange { min: 3, max: 17 }, Val { id: 1, exp: e1 });
    let (c, d) = any_range(0, 31);
    let time: u8 = kani::any();
    let mut n = 0;
    for _ in t.iter_by_range(SegRange { min: c, max: d }, time) {
        n += 1;
    }
    assert_eq!(n, if e1 >= time && 3 <= d && c <= 17 { 1 } else { 0 });
    std::mem::forget(t);
}

#[kani::proof]
fn probe_all_concrete_ranges() {
    let mut t: Tree = SegExpTree::new(SegRange { min: 0, max: 31 }).unwrap();
    let e1: u8 = kani::any();
    let e2: u8 = kani::any();
    t.insert_by_range(SegRange { min: 3, max: 17 }, Val { id: 1, exp: e1 });
    t.insert_by_range(SegRange { min: 16, max: 31 }, Val { id: 2, exp: e2 });
    let time: u8 = kani::any();
    let mut n = 0;
    for _ in t.iter_by_range(SegRange { min: 10, max: 20 }, time) {
        n += 1;
    }
    assert_eq!(n, (if e1 >= time { 1 } else { 0 }) + (if e2 >= time { 1 } else { 0 }));
    std::mem::forget(t);
}
