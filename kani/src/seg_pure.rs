use i_tree::seg::tree::verif::{layout, place_mask, visit_mask};

/// C15: place/visit masks meet iff the bucket ranges overlap; tiling; <= 8 places; bit 63 clear.
#[kani::proof]
#[kani::unwind(34)]
fn c15_masks_meet_iff_overlap() {
    let a: u32 = kani::any();
    let b: u32 = kani::any();
    let c: u32 = kani::any();
    let d: u32 = kani::any();
    kani::assume(a <= b && b < 32 && c <= d && d < 32);
    let p = place_mask(a, b);
    let v = visit_mask(c, d);
    let overlap = a <= d && c <= b;
    assert_eq!((p & v) != 0, overlap);
    assert!(p != 0);
    assert!(p.count_ones() <= 8);
    assert!(p >> 63 == 0);
    assert!(v >> 63 == 0);
    kani::cover!(overlap && p.count_ones() == 8);
    kani::cover!(!overlap);
}

/// C15: the stored-at places tile [a,b]: bucket x lies under exactly one place iff a <= x <= b.
#[kani::proof]
#[kani::unwind(34)]
fn c15_places_tile_range() {
    let a: u32 = kani::any();
    let b: u32 = kani::any();
    kani::assume(a <= b && b < 32);
    let p = place_mask(a, b);
    let x: u32 = kani::any();
    kani::assume(x < 32);
    let mut i = 31 + x;
    let mut hits = 0;
    loop {
        if (p >> i) & 1 == 1 {
            hits += 1;
        }
        if i == 0 {
            break;
        }
        i = (i - 1) / 2;
    }
    assert_eq!(hits, if a <= x && x <= b { 1 } else { 0 });
    // every place covers only buckets of [a,b]: a set bit at heap index j covers leaves [lo_j, hi_j]
    let j: u32 = kani::any();
    kani::assume(j < 63);
    if (p >> j) & 1 == 1 {
        let mut lo = j;
        let mut hi = j;
        while lo < 31 {
            lo = 2 * lo + 1;
            hi = 2 * hi + 2;
        }
        assert!(a + 31 <= lo && hi <= b + 31);
    }
}

/// C14/C15 lemma: every bit of a place or visit mask of buckets [a,b] is a heap index <= 31 + b (so it is backed by storage
/// whenever b <= bucket(hi)), and the visit mask of [0,e] contains every place of every range inside [0,e].
#[kani::proof]
#[kani::unwind(34)]
fn c14_mask_bits_below_count() {
    let a: u32 = kani::any();
    let b: u32 = kani::any();
    kani::assume(a <= b && b < 32);
    let p = place_mask(a, b);
    let v = visit_mask(a, b);
    let limit = 32 + b; // count() for a domain whose last bucket is b
    if limit < 64 {
        assert!(p >> limit == 0);
        assert!(v >> limit == 0);
    }
    let e: u32 = kani::any();
    kani::assume(b <= e && e < 32);
    let whole = visit_mask(0, e);
    assert!(p & !whole == 0);
}

fn check_layout(lo: i64, hi: i64, x: i64, y: i64) {
    // caller guarantees lo <= x <= y <= hi and hi - lo + 1 does not overflow
    let len = hi - lo + 1;
    let l = layout(lo, hi, x);
    assert_eq!(l.is_some(), len > 16);
    if let Some((bx, count)) = l {
        let (b_lo, _) = layout(lo, hi, lo).unwrap();
        let (b_hi, _) = layout(lo, hi, hi).unwrap();
        let (by, _) = layout(lo, hi, y).unwrap();
        assert_eq!(b_lo, 0);
        assert!(b_hi < 32);
        assert_eq!(count, b_hi as usize + 32);
        assert!(bx <= by && by <= b_hi);
        // one common power-of-two width, the smallest for which 32 buckets cover the domain
        let s: u32 = kani::any();
        kani::assume(s <= 58);
        if (32i128 << s) >= len as i128 && (s == 0 || (32i128 << (s - 1)) < len as i128) {
            assert_eq!(bx as i64, (x - lo) >> s);
        }
    }
}

/// C14: all i32 domains.
#[kani::proof]
fn c14_layout_i32() {
    let lo: i32 = kani::any();
    let hi: i32 = kani::any();
    let x: i32 = kani::any();
    let y: i32 = kani::any();
    kani::assume(lo <= x && x <= y && y <= hi);
    check_layout(lo as i64, hi as i64, x as i64, y as i64);
}

/// C14: all u32 domains.
#[kani::proof]
fn c14_layout_u32() {
    let lo: u32 = kani::any();
    let hi: u32 = kani::any();
    let x: u32 = kani::any();
    let y: u32 = kani::any();
    kani::assume(lo <= x && x <= y && y <= hi);
    check_layout(lo as i64, hi as i64, x as i64, y as i64);
}

/// C14: 64-bit domains whose length fits in i64.
#[kani::proof]
fn c14_layout_i64() {
    let lo: i64 = kani::any();
    let hi: i64 = kani::any();
    let x: i64 = kani::any();
    let y: i64 = kani::any();
    kani::assume(lo <= x && x <= y && y <= hi);
    kani::assume(hi.checked_sub(lo).map_or(false, |d| d < i64::MAX));
    check_layout(lo, hi, x, y);
}
