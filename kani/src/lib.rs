//! Kani proof harnesses over the real i_tree crate (built with --cfg ishape_rust_itree_verif).
//! Every harness name starts with the id of the property it serves.
#![allow(dead_code)]
#[cfg(kani)]
mod seg_pure;
#[cfg(kani)]
mod seg_tree;
#[cfg(kani)]
mod lists;
