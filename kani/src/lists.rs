use i_tree::key::array::IntoArray;
use i_tree::key::exp::KeyExpCollection;
use i_tree::key::list::KeyExpList;
use i_tree::map::list::MapList;
use i_tree::map::sort::MapCollection;
use i_tree::set::list::SetList;
use i_tree::set::sort::{KeyValue, SetCollection};
use i_tree::{ExpiredKey, EMPTY_REF};
use std::cmp::Ordering;

const MAXN: usize = 3;

// ------------------------------------------------------------------------------------------------ instrumented key
static mut NOW: u8 = 0;
static mut PROBE: (u8, u8) = (0, 0);
static mut HAVE_PROBE: bool = false;
static mut WATCH: bool = false;
/// callback fuse for C18: when it reaches zero inside a callback the collection is inspected through LIST_PTR
static mut FUSE: u8 = 255;
static mut FUSE_FIRED: bool = false;
static mut LIST_PTR: *const KeyExpList<Key, u8, u8> = std::ptr::null();
static mut PRE: ([(u8, u8, u8); MAXN], usize) = ([(0, 0, 0); MAXN], 0);

#[derive(Clone, Copy)]
struct Key {
    k: u8,
    x: u8,
}
impl Key {
    fn observe(&self) {
        unsafe {
            if WATCH {
                // C20: only the probe itself or a key that is still live may reach the caller's comparison code
                assert!(self.x > NOW || (HAVE_PROBE && self.k == PROBE.0 && self.x == PROBE.1));
            }
        }
    }
}
fn fuse_tick() {
    unsafe {
        if FUSE == 0 && !LIST_PTR.is_null() {
            // C18: a panic here would unwind out of the operation; the collection the caller is left with is what we see now:
            // it must be sorted, its cached earliest expiration valid, and its live entries exactly the live entries before.
            let l = &*LIST_PTR;
            let len = l.verif_len();
            let min_exp = l.verif_min_exp();
            let mut live_pre = 0;
            let mut i = 0;
            while i < PRE.1 {
                if PRE.0[i].1 > NOW {
                    live_pre += 1;
                }
                i += 1;
            }
            let mut live_now = 0;
            let mut j = 0;
            while j < len {
                let (k, v) = l.verif_entry(j);
                assert!(min_exp <= k.x);
                if j > 0 {
                    assert!(l.verif_entry(j - 1).0.k < k.k);
                }
                if k.x > NOW {
                    live_now += 1;
                    let mut found = false;
                    let mut q = 0;
                    while q < PRE.1 {
                        if PRE.0[q].0 == k.k && PRE.0[q].1 == k.x && PRE.0[q].2 == v {
                            found = true;
                        }
                        q += 1;
                    }
                    assert!(found);
                }
                j += 1;
            }
            assert!(live_now == live_pre);
            FUSE_FIRED = true;
        }
        if FUSE != 255 && FUSE > 0 {
            FUSE -= 1;
        }
    }
}
impl PartialEq for Key {
    fn eq(&self, o: &Self) -> bool {
        self.k == o.k
    }
}
impl Eq for Key {}
impl PartialOrd for Key {
    fn partial_cmp(&self, o: &Self) -> Option<Ordering> {
        Some(self.cmp(o))
    }
}
impl Ord for Key {
    fn cmp(&self, o: &Self) -> Ordering {
        self.observe();
        o.observe();
        fuse_tick();
        self.k.cmp(&o.k)
    }
}
static mut EXP_FUSE: u8 = 255;
static mut EXP_CALLS: usize = 0;
static mut EXP_FIRED: bool = false;

/// C18, panic of the expiration accessor on the key being inserted (KeyExpList::insert reads it outside the purge): whatever
/// the buffer holds at that moment is what the caller keeps, so it must be sorted, made of old entries and at most the new
/// key, and the cached earliest expiration must be a lower bound of all of it.
static mut INS_WATCH: bool = false;
static mut INS_KEY: (u8, u8) = (0, 0);
static mut INS_SEEN: u8 = 0;
unsafe fn inspect_during_insert() {
    let l = &*LIST_PTR;
    let len = l.verif_len();
    let min_exp = l.verif_min_exp();
    let mut j = 0;
    while j < len {
        let (k, v) = l.verif_entry(j);
        assert!(min_exp <= k.x);
        if j > 0 {
            assert!(l.verif_entry(j - 1).0.k < k.k);
        }
        if !(k.k == INS_KEY.0 && k.x == INS_KEY.1) {
            let mut found = false;
            let mut q = 0;
            while q < PRE.1 {
                if PRE.0[q].0 == k.k && PRE.0[q].1 == k.x && PRE.0[q].2 == v {
                    found = true;
                }
                q += 1;
            }
            assert!(found);
        }
        j += 1;
    }
    INS_SEEN += 1;
}

impl ExpiredKey<u8> for Key {
    fn expiration(&self) -> u8 {
        unsafe {
            if INS_WATCH && !LIST_PTR.is_null() && self.k == INS_KEY.0 && self.x == INS_KEY.1 {
                inspect_during_insert();
            }
            if EXP_FUSE == 0 && !LIST_PTR.is_null() {
                // C18, panic of the expiration accessor inside clear_expired's Vec::retain: std's retain guard restores the
                // already kept prefix followed by every not yet processed entry (this one included).  The cached earliest
                // expiration the caller is left with must still be a lower bound for all of them.
                let min_exp = (*LIST_PTR).verif_min_exp();
                let k = EXP_CALLS; // entries PRE[k..] are unprocessed
                let mut j = 0;
                while j < PRE.1 {
                    if j >= k || PRE.0[j].1 > NOW {
                        assert!(min_exp <= PRE.0[j].1);
                    }
                    j += 1;
                }
                EXP_FIRED = true;
            }
            if EXP_FUSE != 255 && EXP_FUSE > 0 {
                EXP_FUSE -= 1;
            }
            EXP_CALLS += 1;
        }
        self.x
    }
}

#[derive(Clone, Copy, PartialEq)]
struct Item {
    key: u8,
    payload: u8,
}
impl KeyValue<u8> for Item {
    fn key(&self) -> &u8 {
        &self.key
    }
}

// ------------------------------------------------------------------------------------------------ symbolic sorted buffers
/// (k, x, v) entries with strictly increasing k, n <= MAXN
fn any_entries() -> ([(u8, u8, u8); MAXN], usize) {
    let n: usize = kani::any();
    kani::assume(n <= MAXN);
    let e: [(u8, u8, u8); MAXN] = kani::any();
    let mut i = 1;
    while i < MAXN {
        if i < n {
            kani::assume(e[i - 1].0 < e[i].0);
        }
        i += 1;
    }
    (e, n)
}

fn key_list(e: &[(u8, u8, u8); MAXN], n: usize) -> KeyExpList<Key, u8, u8> {
    let mut v = Vec::with_capacity(MAXN + 1);
    let min_exp: u8 = kani::any();
    let mut i = 0;
    while i < n {
        v.push((Key { k: e[i].0, x: e[i].1 }, e[i].2));
        kani::assume(min_exp <= e[i].1);
        i += 1;
    }
    KeyExpList::verif_from_raw(v, min_exp)
}

fn map_list(e: &[(u8, u8, u8); MAXN], n: usize) -> MapList<u8, u8> {
    let mut v = Vec::with_capacity(MAXN + 1);
    let mut i = 0;
    while i < n {
        v.push((e[i].0, e[i].2));
        i += 1;
    }
    MapList::verif_from_raw(v)
}

fn set_list(e: &[(u8, u8, u8); MAXN], n: usize) -> SetList<Item> {
    let mut v = Vec::with_capacity(MAXN + 1);
    let mut i = 0;
    while i < n {
        v.push(Item { key: e[i].0, payload: e[i].2 });
        i += 1;
    }
    SetList::verif_from_raw(v)
}

/// reference predecessor over the entries: greatest key satisfying `ok` among live ones -> index
fn ref_pred(e: &[(u8, u8, u8); MAXN], n: usize, t: Option<u8>, ok: impl Fn(u8) -> bool) -> Option<usize> {
    let mut best: Option<usize> = None;
    let mut i = 0;
    while i < n {
        if t.map_or(true, |t| e[i].1 > t) && ok(e[i].0) {
            best = Some(i); // keys increase with i
        }
        i += 1;
    }
    best
}

fn ref_find(e: &[(u8, u8, u8); MAXN], n: usize, t: Option<u8>, k: u8) -> Option<usize> {
    let mut r = None;
    let mut i = 0;
    while i < n {
        if t.map_or(true, |t| e[i].1 > t) && e[i].0 == k {
            r = Some(i);
        }
        i += 1;
    }
    r
}

/// the list's stored entries are exactly the live entries of `e` (in order), plus `extra` at its sorted position
fn assert_key_state(l: &KeyExpList<Key, u8, u8>, e: &[(u8, u8, u8); MAXN], n: usize, t: u8, extra: Option<(u8, u8, u8)>) {
    // non-allocating accessors only (no snapshot vector to drop)
    let len = l.verif_len();
    let min_exp = l.verif_min_exp();
    let at = |j: usize| -> (u8, u8, u8) {
        let (k, v) = l.verif_entry(j);
        (k.k, k.x, v)
    };
    let mut j = 0;
    let mut i = 0;
    let mut extra_done = extra.is_none();
    while i < n {
        if e[i].1 > t {
            if let Some(x) = extra {
                if !extra_done && x.0 < e[i].0 {
                    assert!(j < len && at(j) == x);
                    j += 1;
                    extra_done = true;
                }
            }
            assert!(j < len && at(j) == e[i]);
            j += 1;
        }
        i += 1;
    }
    if let Some(x) = extra {
        if !extra_done {
            assert!(j < len && at(j) == x);
            j += 1;
        }
    }
    assert!(j == len);
    // cached earliest expiration stays a lower bound of what is stored (never lets an expired entry be observed)
    let mut q = 0;
    while q < len {
        assert!(min_exp <= at(q).1);
        q += 1;
    }
}

unsafe fn watch(t: u8, probe: Option<(u8, u8)>) {
    NOW = t;
    HAVE_PROBE = probe.is_some();
    if let Some(p) = probe {
        PROBE = p;
    }
    WATCH = true;
}

unsafe fn arm_fuse(pre: &([(u8, u8, u8); MAXN], usize), l: &KeyExpList<Key, u8, u8>) {
    PRE = *pre;
    LIST_PTR = l as *const _;
    let f: u8 = kani::any();
    kani::assume(f < 3);
    FUSE = f;
}

// ------------------------------------------------------------------------------------------------ KeyExpList  (C13, C18, C20)
/// C13 + C20 (list): the three predecessor queries and exact lookup from an arbitrary valid list; the instrumented key asserts
/// that only the probe or live keys reach Ord::cmp / the comparator closure.
#[kani::proof]
#[kani::unwind(6)]
fn c13_keylist_queries() {
    let (e, n) = any_entries();
    let mut l = key_list(&e, n);
    let t: u8 = kani::any();
    let d: u8 = kani::any();
    let k: u8 = kani::any();
    let kx: u8 = kani::any();
    let probe = Key { k, x: kx };
    unsafe { watch(t, Some((k, kx))) };
    let which: u8 = kani::any();
    kani::assume(which < 4);
    if which == 0 {
        let r = l.first_less(t, d, probe);
        assert_eq!(r, ref_pred(&e, n, Some(t), |x| x < k).map_or(d, |i| e[i].2));
    } else if which == 1 {
        let r = l.first_less_or_equal(t, d, probe);
        assert_eq!(r, ref_pred(&e, n, Some(t), |x| x <= k).map_or(d, |i| e[i].2));
    } else if which == 2 {
        let r = l.get_value(t, probe);
        assert_eq!(r, ref_find(&e, n, Some(t), k).map(|i| e[i].2));
    } else {
        let p9: u16 = kani::any();
        kani::assume(p9 < 512);
        unsafe { HAVE_PROBE = false };
        let r = l.first_less_or_equal_by(t, d, |key: Key| {
            key.observe();
            fuse_tick();
            (2 * key.k as u16).cmp(&p9)
        });
        assert_eq!(r, ref_pred(&e, n, Some(t), |x| 2 * (x as u16) <= p9).map_or(d, |i| e[i].2));
    }
    unsafe { WATCH = false; FUSE = 255; }
    assert_key_state(&l, &e, n, t, None);
    assert_eq!(l.is_empty(), ref_pred(&e, n, Some(t), |_| true).is_none());
    std::mem::forget(l);
}

#[kani::proof]
#[kani::unwind(6)]
fn c13_keylist_insert() {
    let (e, n) = any_entries();
    let mut l = key_list(&e, n);
    let t: u8 = kani::any();
    let k: u8 = kani::any();
    let x: u8 = kani::any();
    let v: u8 = kani::any();
    kani::assume(x >= t);
    kani::assume(ref_find(&e, n, Some(t), k).is_none());
    unsafe { watch(t, Some((k, x))) };
    l.insert(Key { k, x }, v, t);
    unsafe { WATCH = false; FUSE = 255; }
    assert_key_state(&l, &e, n, t, Some((k, x, v)));
    std::mem::forget(l);
}

#[kani::proof]
#[kani::unwind(6)]
fn c13_keylist_export_and_clear() {
    let (e, n) = any_entries();
    let mut l = key_list(&e, n);
    let t: u8 = kani::any();
    if kani::any() {
        l.clear();
        // C12: indistinguishable from a new list
        let (snap, min_exp) = l.verif_snapshot();
        let (fsnap, fmin) = KeyExpList::<Key, u8, u8>::new(0).verif_snapshot();
        assert!(snap.len() == 0 && fsnap.len() == 0 && min_exp == fmin && min_exp == u8::MAX);
        assert!(l.is_empty());
        assert_eq!(l.first_less_or_equal(kani::any(), 7, Key { k: kani::any(), x: kani::any() }), 7);
        std::mem::forget(l);
        return;
    }
    // C07 (list variant) + C19: exactly the live values in key order, capacity proportional
    let out = l.into_ordered_vec(t);
    let mut j = 0;
    let mut i = 0;
    while i < n {
        if e[i].1 > t {
            assert!(j < out.len() && out[j] == e[i].2);
            j += 1;
        }
        i += 1;
    }
    assert!(j == out.len());
    assert!(out.capacity() <= 2 * n + 8);
    std::mem::forget(out);
}

// ------------------------------------------------------------------------------------------------ MapList / SetList (C13)
#[kani::proof]
#[kani::unwind(6)]
fn c13_maplist_ops() {
    let (e, n) = any_entries();
    let mut l = map_list(&e, n);
    let k: u8 = kani::any();
    let which: u8 = kani::any();
    kani::assume(which < 6);
    assert_eq!(l.is_empty(), n == 0);
    if which == 0 {
        assert_eq!(l.get_value(k).copied(), ref_find(&e, n, None, k).map(|i| e[i].2));
    } else if which == 1 {
        let h = l.first_index_less(k);
        let r = ref_pred(&e, n, None, |x| x <= k);
        assert_eq!(h, r.map_or(EMPTY_REF, |i| i as u32));
        let p9 = 2 * k as u16;
        assert_eq!(l.first_index_less_by(|x| (2 * x as u16).cmp(&p9)), h);
        if let Some(i) = r {
            assert_eq!(*l.value_by_index(h), e[i].2);
        }
    } else if which == 2 {
        let p9: u16 = kani::any();
        kani::assume(p9 < 512);
        let h = l.first_index_less_by(|x| (2 * x as u16).cmp(&p9));
        assert_eq!(h, ref_pred(&e, n, None, |x| 2 * (x as u16) <= p9).map_or(EMPTY_REF, |i| i as u32));
    } else if which == 3 {
        // delete by key: absent key changes nothing, present key removes exactly that entry
        l.delete(k);
        let s = l.verif_snapshot();
        let gone = ref_find(&e, n, None, k);
        assert_eq!(s.len(), n - gone.map_or(0, |_| 1));
        let mut i = 0;
        let mut j = 0;
        while i < n {
            if Some(i) != gone {
                assert!(s[j].0 == e[i].0 && s[j].1 == e[i].2);
                j += 1;
            }
            i += 1;
        }
    } else if which == 4 {
        // write / delete through the predecessor handle
        let h = l.first_index_less(k);
        if h != EMPTY_REF {
            let nv: u8 = kani::any();
            *l.value_by_index_mut(h) = nv;
            assert_eq!(l.get_value(e[h as usize].0).copied(), Some(nv));
            l.delete_by_index(h);
            let s = l.verif_snapshot();
            assert_eq!(s.len(), n - 1);
            let mut i = 0;
            let mut j = 0;
            while i < n {
                if i != h as usize {
                    assert!(s[j].0 == e[i].0 && s[j].1 == e[i].2);
                    j += 1;
                }
                i += 1;
            }
        }
    } else {
        // insert of an absent key
        let v: u8 = kani::any();
        kani::assume(ref_find(&e, n, None, k).is_none());
        l.insert(k, v);
        let s = l.verif_snapshot();
        assert_eq!(s.len(), n + 1);
        let mut i = 0;
        let mut j = 0;
        let mut placed = false;
        while i < n {
            if !placed && k < e[i].0 {
                assert!(s[j].0 == k && s[j].1 == v);
                j += 1;
                placed = true;
            }
            assert!(s[j].0 == e[i].0 && s[j].1 == e[i].2);
            j += 1;
            i += 1;
        }
        if !placed {
            assert!(s[j].0 == k && s[j].1 == v);
        }
    }
    std::mem::forget(l);
}

#[kani::proof]
#[kani::unwind(6)]
fn c13_setlist_ops() {
    let (e, n) = any_entries();
    let mut l = set_list(&e, n);
    let k: u8 = kani::any();
    let which: u8 = kani::any();
    kani::assume(which < 5);
    assert_eq!(SetCollection::<u8, Item>::is_empty(&l), n == 0);
    if which == 0 {
        let r = l.get_value(&k).copied();
        let w = ref_find(&e, n, None, k).map(|i| Item { key: e[i].0, payload: e[i].2 });
        assert!(r == w);
    } else if which == 1 {
        let h = l.first_index_less(&k);
        let r = ref_pred(&e, n, None, |x| x <= k);
        assert_eq!(h, r.map_or(EMPTY_REF, |i| i as u32));
        let p9 = 2 * k as u16;
        assert_eq!(l.first_index_less_by(|x| (2 * *x as u16).cmp(&p9)), h);
    } else if which == 2 {
        // neighbour steps: next larger / next smaller key, the empty sentinel past either end
        let h: u32 = kani::any();
        kani::assume((h as usize) < n);
        let a = SetCollection::<u8, Item>::index_after(&l, h);
        let b = SetCollection::<u8, Item>::index_before(&l, h);
        assert_eq!(a, if (h as usize) + 1 < n { h + 1 } else { EMPTY_REF });
        assert_eq!(b, if h > 0 { h - 1 } else { EMPTY_REF });
    } else if which == 3 {
        l.delete(&k);
        let s = l.verif_snapshot();
        let gone = ref_find(&e, n, None, k);
        assert_eq!(s.len(), n - gone.map_or(0, |_| 1));
        let mut i = 0;
        let mut j = 0;
        while i < n {
            if Some(i) != gone {
                assert!(s[j].key == e[i].0 && s[j].payload == e[i].2);
                j += 1;
            }
            i += 1;
        }
    } else {
        let v: u8 = kani::any();
        kani::assume(ref_find(&e, n, None, k).is_none());
        l.insert(Item { key: k, payload: v });
        let s = l.verif_snapshot();
        assert_eq!(s.len(), n + 1);
        let r = l.get_value(&k).copied();
        assert!(r == Some(Item { key: k, payload: v }));
        let mut j = 1;
        while j < s.len() {
            assert!(s[j - 1].key < s[j].key);
            j += 1;
        }
    }
    std::mem::forget(l);
}

/// C12: clear on the map / set lists
#[kani::proof]
#[kani::unwind(6)]
fn c12_lists_clear_equals_new() {
    let (e, n) = any_entries();
    let mut m = map_list(&e, n);
    m.clear();
    assert!(m.is_empty() && m.verif_snapshot().len() == 0);
    assert_eq!(m.first_index_less(kani::any()), EMPTY_REF);
    assert!(m.get_value(kani::any()).is_none());
    let mut s = set_list(&e, n);
    SetCollection::<u8, Item>::clear(&mut s);
    assert!(SetCollection::<u8, Item>::is_empty(&s) && s.verif_snapshot().len() == 0);
    let k: u8 = kani::any();
    assert_eq!(s.first_index_less(&k), EMPTY_REF);
    std::mem::forget(m);
    std::mem::forget(s);
}

/// C18 (list): state seen by a callback that panics mid-operation (symbolic callback index): sorted, valid cache, same live set.
#[kani::proof]
#[kani::unwind(6)]
fn c18_keylist_callback_state() {
    let (e, n) = any_entries();
    kani::assume(n <= 2);
    let mut l = key_list(&e, n);
    let t: u8 = kani::any();
    let d: u8 = kani::any();
    let k: u8 = kani::any();
    let kx: u8 = kani::any();
    let probe = Key { k, x: kx };
    unsafe {
        NOW = t;
        WATCH = false;
        arm_fuse(&(e, n), &l);
    }
    let which: u8 = kani::any();
    kani::assume(which < 4);
    if which == 0 {
        l.first_less(t, d, probe);
    } else if which == 1 {
        l.get_value(t, probe);
    } else if which == 2 {
        let p9: u16 = kani::any();
        kani::assume(p9 < 512);
        l.first_less_or_equal_by(t, d, |key: Key| {
            fuse_tick();
            (2 * key.k as u16).cmp(&p9)
        });
    } else {
        kani::assume(kx >= t && ref_find(&e, n, Some(t), k).is_none());
        l.insert(probe, d, t);
    }
    kani::cover!(unsafe { FUSE_FIRED });
    unsafe { FUSE = 255; }
    std::mem::forget(l);
}

/// C18 (list): the expiration accessor panics on the key being inserted, at any of its invocations (before or after the buffer
/// is changed): the list left behind is sorted, holds old entries plus at most the new one, and its cache is a valid lower bound.
#[kani::proof]
#[kani::unwind(6)]
fn c18_keylist_insert_accessor_panic() {
    let (e, n) = any_entries();
    kani::assume(n <= 3);
    let mut l = key_list(&e, n);
    let t: u8 = kani::any();
    let d: u8 = kani::any();
    let k: u8 = kani::any();
    let kx: u8 = kani::any();
    kani::assume(kx >= t && ref_find(&e, n, None, k).is_none());
    unsafe {
        NOW = t;
        WATCH = false;
        PRE = (e, n);
        LIST_PTR = &l as *const _;
        INS_KEY = (k, kx);
        INS_SEEN = 0;
        INS_WATCH = true;
    }
    l.insert(Key { k, x: kx }, d, t);
    unsafe { INS_WATCH = false; }
    kani::cover!(unsafe { INS_SEEN > 0 });
    std::mem::forget(l);
}

/// C18 (list): the expiration accessor panics during the purge (inside Vec::retain): the cached earliest expiration left behind
/// is still a lower bound of everything the retain guard keeps.
#[kani::proof]
#[kani::unwind(6)]
fn c18_keylist_purge_panic_keeps_cache_valid() {
    let (e, n) = any_entries();
    let mut l = key_list(&e, n);
    let t: u8 = kani::any();
    let f: u8 = kani::any();
    kani::assume(f < 3);
    unsafe {
        NOW = t;
        WATCH = false;
        PRE = (e, n);
        LIST_PTR = &l as *const _;
        EXP_CALLS = 0;
        EXP_FUSE = f;
    }
    // only the purge itself: get_value's first action; the insert path calls expiration() once more before the purge
    if kani::any() {
        l.get_value(t, Key { k: kani::any(), x: kani::any() });
    } else {
        let out = l.into_ordered_vec(t);
        std::mem::forget(out);
        kani::cover!(unsafe { EXP_FIRED });
        unsafe { EXP_FUSE = 255; }
        return;
    }
    kani::cover!(unsafe { EXP_FIRED });
    unsafe { EXP_FUSE = 255; }
    std::mem::forget(l);
}
