#!/usr/bin/env python3
"""Entry point of every registered check.  Exit 0 = property held on everything explored, 1 = VIOLATION (confirmed by native
replay), 2 = inconclusive (timeout, unsupported construct, unconfirmed counterexample) - never reported as success."""
import argparse
import os
import sys

sys.path.insert(0, os.path.dirname(os.path.abspath(__file__)))

TREE_PROPS = {'C01', 'C02', 'C04', 'C05', 'C06', 'C07', 'C08', 'C09', 'C10', 'C11', 'C12', 'C17', 'C18', 'C19', 'C20'}


def main():
    ap = argparse.ArgumentParser()
    ap.add_argument('pid')
    ap.add_argument('--tier', default=os.environ.get('VERIF_TIER', 'quick'), choices=['quick', 'thorough'])
    ap.add_argument('--replay')
    ap.add_argument('--procs', type=int, default=None)
    a = ap.parse_args()
    seed = int(os.environ.get('VERIF_SEED', '0'))
    if a.replay:
        from mirsym import check_trees
        sys.exit(check_trees.replay_file(a.replay))
    if a.pid in TREE_PROPS:
        from mirsym import check_trees
        sys.exit(check_trees.run(a.pid, a.tier, seed, a.procs))
    print(f'no check registered for {a.pid}', file=sys.stderr)
    sys.exit(2)


if __name__ == '__main__':
    main()
