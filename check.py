#!/usr/bin/env python3
"""Entry point of every registered check.  Exit 0 = property held on everything explored, 1 = VIOLATION (confirmed by native
replay), 2 = inconclusive (timeout, unsupported construct, unconfirmed counterexample) - never reported as success."""
import argparse
import os
import sys

sys.path.insert(0, os.path.dirname(os.path.abspath(__file__)))

TREE_PROPS = {'C01', 'C02', 'C04', 'C05', 'C06', 'C07', 'C08', 'C09', 'C10', 'C11', 'C12', 'C17', 'C18', 'C19', 'C20'}


def main():
    ap = argparse.ArgumentParser()
    ap.add_argument('pid')
    ap.add_argument('--tier', default=os.environ.get('VERIF_TIER', 'quick'), choices=['quick', 'thorough'])
    ap.add_argument('--replay')
    ap.add_argument('--procs', type=int, default=None)
    a = ap.parse_args()
    seed = int(os.environ.get('VERIF_SEED', '0'))
    if a.replay:
        import json
        d = json.load(open(a.replay))
        if d.get('engine') == 'kani-playback':
            from mirsym import check_kani
            sys.exit(check_kani.replay_file(a.replay))
        from mirsym import check_trees
        sys.exit(check_trees.replay_file(a.replay))
    from mirsym import check_kani, check_trees, check_seg, common
    SEG_PROPS = {'C03', 'C16', 'C12', 'C15', 'C10', 'C14'}
    import time
    t0 = time.time()
    rdir = os.path.join(common.evidence_dir(), 'replay')
    if os.path.isdir(rdir):
        for f in os.listdir(rdir):
            if f.startswith(a.pid + '-'):
                os.unlink(os.path.join(rdir, f))
    parts = []
    engines = os.environ.get('VERIF_ENGINES', 'tree,seg,kani').split(',')      # debugging aid; registered commands use all
    if 'tree' not in engines:
        TREE_PROPS.clear()
    if 'kani' not in engines:
        check_kani.PLAN.clear()
    # the Kani harnesses (few, mostly single-threaded CBMC runs) go on concurrently with the MIR-executor parts
    import threading
    kres = {}
    kth = None
    if a.pid in check_kani.PLAN:
        common.scratch(); common.repo_copy()
        kth = threading.Thread(target=lambda: kres.update(r=check_kani.run(a.pid, a.tier, seed)))
        kth.start()
    if a.pid in TREE_PROPS:
        parts.append(('tree', check_trees.run(a.pid, a.tier, seed, a.procs)))
    if a.pid in SEG_PROPS and 'seg' in engines:
        parts.append(('seg', check_seg.run(a.pid, a.tier, seed, a.procs)))
    if kth is not None:
        kth.join()
        if kres.get('r') is not None:
            parts.append(('kani', kres['r']))
    if not parts:
        print(f'no check registered for {a.pid}', file=sys.stderr)
        sys.exit(2)
    ev = None
    rc = 0
    for kind, r in parts:
        for l in r['lines']:
            print(l)
        if kind == 'tree':
            ev = r['ev']
    kani = dict(parts).get('kani')
    seg = dict(parts).get('seg')
    if ev is None and seg is not None:
        ev = {'property_id': a.pid, 'tier': a.tier, 'seed': seed, 'level': 'model_checking',
              'coverage': {'states': max(1, seg['paths']), 'transitions': max(1, seg['obligations']), 'traces_validated_against_impl': seg['confirmed'],
                           'samples': seg['samples'] or [{'note': 'no feasible path'}],
                           'explanation': 'states = feasible symbolic paths of the real segment-tree code (MIR executor); transitions = obligations discharged by z3',
                           'engine': 'mirsym: symbolic execution of rustc MIR + z3 (QF_BV), MIR regenerated from /repo working tree'},
              'assumptions': ['std leaves modelled from their contract (Vec, slices, ranges, Option, trailing_zeros, ilog2)',
                              'instantiation SegExpTree<i32, u8, {id:u8, exp:u8}>'],
              'violations': 0}
    if seg is not None:
        ev['coverage'].update(seg['coverage'])
        ev['coverage'].setdefault('inconclusive', [])
        ev['coverage']['inconclusive'] = list(ev['coverage']['inconclusive']) + seg['inconclusive'][:10]
        if 'tree' in dict(parts):
            ev['coverage']['states'] += seg['paths']
            ev['coverage']['transitions'] += seg['obligations']
            ev['coverage']['samples'] = ev['coverage']['samples'] + seg['samples'][:2]
        ev['violations'] = ev.get('violations', 0) + seg['violations']
    if ev is None:
        ev = {'property_id': a.pid, 'tier': a.tier, 'seed': seed, 'level': 'model_checking',
              'coverage': {'states': max(1, kani['harnesses']), 'transitions': max(1, kani['checks']), 'traces_validated_against_impl': kani['confirmed'],
                           'samples': kani['samples'],
                           'explanation': 'states = proof harnesses decided by CBMC (each covers every input valuation within its bounds); transitions = CBMC checks (assertions, pointer/bounds/overflow checks, unwinding assertions) discharged'},
              'assumptions': ['harnesses built against a scratch copy of /repo with --cfg ishape_rust_itree_verif; std code executed by Kani as compiled (no stubs)',
                              'list pre-states: every sorted duplicate-free buffer of at most 3 entries built through the verif_from_raw hook (key list: any cached earliest expiration that is a lower bound)'],
              'violations': 0}
    if kani is not None:
        ev['coverage'].update(kani['coverage'])
        ev['coverage'].setdefault('inconclusive', [])
        ev['coverage']['inconclusive'] = list(ev['coverage']['inconclusive']) + kani['inconclusive'][:10]
        if 'tree' in dict(parts) or 'seg' in dict(parts):
            ev['coverage']['samples'] = ev['coverage']['samples'] + kani['samples'][:3]
            ev['coverage']['transitions'] += kani['checks']
            ev['coverage']['states'] += kani['harnesses']
            ev['violations'] = ev.get('violations', 0) + kani['violations']
        else:
            ev['violations'] = kani['violations']
        for m in kani['inconclusive']:
            common.log(f'[{a.pid}] INCONCLUSIVE: {m}')
    rcs = [r['rc'] for _, r in parts]
    rc = 1 if 1 in rcs else (2 if 2 in rcs else 0)
    ev['wall_s'] = round(time.time() - t0, 1)
    common.write_evidence(a.pid, ev)
    sys.exit(rc)


if __name__ == '__main__':
    main()
