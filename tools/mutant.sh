#!/bin/bash
# usage: mutant.sh <dir with patch.diff + demo_*.rs> <name> <props...>
# 1) confirms the change independently in a scratch worktree: suite passes with it, demo fails with it and passes without
# 2) runs the named checks against the changed tree (VERIF_REPO) and prints their exit codes
SRC=$1; NAME=$2; shift 2
WT=/tmp/mt-$NAME
git -C /repo worktree remove --force $WT 2>/dev/null
git -C /repo worktree add -q --detach $WT HEAD || exit 9
export CARGO_TARGET_DIR=$WT/target CARGO_NET_OFFLINE=true
DEMO=$(ls $SRC/demo*.rs | head -1); DN=$(basename $DEMO .rs)
cp $DEMO $WT/tests/
( cd $WT && cargo test --offline --test $DN > $WT/demo_clean.log 2>&1 ); CLEAN=$?
git -C $WT apply $SRC/patch.diff || { echo "patch does not apply"; exit 9; }
( cd $WT && cargo test --offline --test $DN > $WT/demo_mut.log 2>&1 ); MUT=$?
( cd $WT && cargo test --offline --release --test $DN > $WT/demo_mut_rel.log 2>&1 ); MUTR=$?
rm $WT/tests/$DN.rs
( cd $WT && cargo test --offline > $WT/suite.log 2>&1 ); SUITE=$?
PASSED=$(grep "test result" $WT/suite.log | awk '{s+=$4} END {print s}')
echo "CONFIRM $NAME: demo_on_clean_rc=$CLEAN demo_on_mutant_rc=$MUT demo_on_mutant_release_rc=$MUTR suite_rc=$SUITE suite_passed=$PASSED"
rm -rf $WT/target
for P in "$@"; do
  ( cd /verif && VERIF_REPO=$WT VERIF_EVIDENCE_DIR=/tmp/mt-ev-$NAME ${TIERENV:-} ./check $P --tier ${TIER:-quick} > /tmp/mt-$NAME-$P.log 2>&1 ); echo "CHECK $NAME $P rc=$?  $(grep -c VIOLATION /tmp/mt-$NAME-$P.log) violation lines"
done
git -C /repo worktree remove --force $WT
