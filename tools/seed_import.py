#!/usr/bin/env python3
"""Copies a sub-agent's seeded change into /verif/seeded/<name>/ and records what was confirmed and which checks catch it.
usage: seed_import.py <out-dir> <name> <confirm-line> <check results...>   (check result = PID:rc)"""
import json
import os
import shutil
import sys

src, name, confirm = sys.argv[1], sys.argv[2], sys.argv[3]
results = dict(x.split(':', 1) for x in sys.argv[4:])
dst = os.path.join('/verif/seeded', name)
os.makedirs(dst, exist_ok=True)
for f in os.listdir(src):
    if f.endswith('.rs') or f == 'patch.diff':
        shutil.copy(os.path.join(src, f), dst)
meta = json.load(open(os.path.join(src, 'meta.json')))
meta['confirmed_by_me'] = confirm
meta['checks_run'] = {k: {'0': 'missed (exit 0)', '1': 'caught (VIOLATION, natively replayed)', '2': 'inconclusive (exit 2)'}.get(v, v) for k, v in results.items()}
meta['caught_by'] = sorted(k for k, v in results.items() if v == '1')
json.dump(meta, open(os.path.join(dst, 'meta.json'), 'w'), indent=1)
print(name, meta['caught_by'])
