#!/usr/bin/env python3
"""Writes /verif/MANIFEST.json from the table below (kept next to the checks so that the two cannot drift apart)."""
import json
import os
import subprocess

V = os.path.dirname(os.path.dirname(os.path.abspath(__file__)))
E1 = 'mirsym (symbolic execution of rustc MIR, z3 QF_BV) + native replay'
E2 = 'kani 0.68 / CBMC 6.11 + concrete playback'
E3 = 'mirsym on the segment tree (real MIR of seg::*, z3) with concrete bucket ranges per template + native replay'
T_E3 = 'bounded symbolic execution of the real segment-tree MIR + SMT (z3): expirations, query times and the number of items consumed from a partially consumed query are symbolic; bucket ranges are concrete per template (enumerated family; thorough: all 528x528 insert/query pairs); counterexamples replayed natively'
T_E1 = 'bounded symbolic execution of the real MIR + SMT (z3): one inductive step from every arena satisfying the representation invariant, plus bounded public-API histories; counterexamples replayed natively'
T_E2 = 'bounded model checking of the compiled crate with Kani/CBMC (SAT), symbolic inputs, unwinding assertions; counterexamples replayed with concrete playback'

CLAIMS = {
 'C01': (E1, T_E1, '2/C01', 'Every arena of at most N slots (N=5 quick, 6 thorough) satisfying the invariant x every insert / first_less / first_less_or_equal / first_less_or_equal_by argument and time: result equals the reference predecessor among entries with expiration > t, only expired entries vanish (frame for every later time), invariant re-established. One such step composes to histories of any length over arenas within the bound; bounded histories from new() (<=4 inserts) are checked as well.',
         'bounds: arena slots, at most 1 (quick) / 2 (thorough) already-expired entries present at operation time, 8-bit keys/expirations/values; std Vec leaves modelled from their contract; trees larger than the bound are outside the claim'),
 'C02': (E1, T_E1, '2/C02', 'Inv(S) => Inv(S\') for every mutating entry point of the three trees from every arena within the bound (closed-form invariant: mutual links, order, no red-red, equal black counts, sentinel unlinked, link-typed and acyclic stale links), base case new(c) for c in {0,1,8,9}, and the code-free lemmas witness form <=> closed form and Inv => height <= 2 log2(n+1)+1 for the same N.',
         'same bounds as C01 (quick N=4, thorough N=6); one instantiation per tree (u8 keys)'),
 'C03': (E3, T_E3, '3/C03', 'The real new / insert_by_range / iter_by_range / Iterator::next / clear code executed from its MIR on histories insert, insert, query (partially consumed, symbolic count), query (fully consumed) and variants with clear, on the 32-point domain [0,31] (bucket = coordinate: exact-intersection clause) and the 128-point domain [-50,77]; obligations: a fully consumed query yields each stored value exactly once iff its expiration >= t and its bucket range meets the query, a partially consumed one a duplicate-free sub-multiset, nothing else. Solver-decided: all expirations, times (non-decreasing), consumed counts. Enumerated: the bucket ranges (family of 16 x 10 x 10 shapes quick; all 528 x 528 pairs thorough). The all-domains / all-ranges part of the quantifier is carried by C14 and C15 (decided without bound).',
         'ranges are concrete per template: fully symbolic ranges are out of reach (CBMC: one symbolic insert 7 min, insert+query > 50 min / 10 GB; no state merging in the MIR executor for the bit-iteration loops); <= 2 stored values (+1 after clear), <= 2 queries per history'),
 'C04': (E1, T_E1, '2/C04', 'Step proofs on MapTree: insert of an absent key, delete of any key, get_value, is_empty, clear: the abstract key->value map changes exactly as specified (checked for an arbitrary key), values are opaque tokens so "never altered, duplicated or lost" is map equality; growth step with a full arena; histories from new() with capacity hints 0,1,8,9.',
         'bounds as C01; values are Copy-like 8-bit tokens (Clone = copy); non-Copy V: no double drop follows from in-bounds accesses (C10), stated not encoded'),
 'C05': (E1, T_E1, '2/C05', 'As C04 on SetTree<u8, {key, payload}> with the key accessor as an observed callback; payload equality is part of the abstraction.', 'bounds as C01'),
 'C06': (E1, T_E1, '2/C06', 'Step proof for KeyExpTree::get_value from every arena within the bound: Some(v) iff an entry with that key and expiration > t is stored; plus histories from new().', 'bounds as C01'),
 'C07': (E1 + ' ; ' + E2, T_E1 + ' ; list variant: ' + T_E2, '2/C07', 'Step proof for into_ordered_vec from every arena within the bound incl. arbitrary stale links/entities in free slots: result = values of entries with expiration > t in key order, each once; is_part_of_the_tree proven equal to tree membership and used as a summary; histories with lazy removals before the export; list variant by Kani from every sorted buffer of <= 3 entries (same closed-form reference, hence identical vectors).', 'bounds as C01; list <= 3 entries'),
 'C08': (E1, T_E1, '2/C08', 'Step proofs on map and set: first_index_less / first_index_less_by return the slot of the greatest key <= probe (unique) or the sentinel, both forms against the same reference for half-integer probes; read / write / delete through a handle change exactly the designated entry.', 'comparators restricted to the family k -> (2k).cmp(p); bounds as C01'),
 'C09': (E1, T_E1, '2/C09', 'Step proofs on SetTree: index_after / index_before of every in-tree handle = slot of the next larger / smaller key or the sentinel, with every node() read in bounds; histories from new().', 'bounds as C01'),
 'C10': (E1 + ' ; ' + E2 + ' ; ' + E3, T_E1 + ' ; lists: ' + T_E2 + ' ; segment tree: ' + T_E3, '2/C10', 'Obligation channel of every step and history harness of the three trees and key::array (every get_unchecked / Vec index in bounds, no MIR assert / panic / unwrap(None) reachable, loops and recursion within the unwinding bound) under the contract preconditions; Kani default checks (pointer validity, overflow, panics, unwinding) on the list and segment-tree harnesses.', 'quick N=4; contract preconditions assumed as listed in DESIGN.md'),
 'C11': (E1, T_E1, '2/C11', 'Accounting conjunct of the invariant (every slot exactly one of sentinel / in tree / free once) re-established by every mutating step, clear frees every slot, buffer length changes only in the growth step (free list empty = all slots in use) and then by the free list capacity <= 2*len, which bounds storage by 3*(peak+1).', 'RawVec growth policy modelled (amortised doubling); bounds as C02'),
 'C12': (E1 + ' ; ' + E2 + ' ; ' + E3, T_E1 + ' ; lists: ' + T_E2 + ' ; segment tree: ' + T_E3, '2/C12', 'Trees: clear step => empty abstraction, all slots free, invariant; every other step already quantifies over arbitrary free-slot garbage and free-list order, so later behaviour is a function of the abstraction alone; histories with clear in the middle incl. a restarted clock. Lists and segment tree: Kani, state after clear equals that of new (buffers empty, cached expiration = MAX, every place empty) and a later insert/query behaves as on a fresh instance.', 'bounds as C01; lists <= 3 entries; segment tree <= 2 values'),
 'C13': (E2, T_E2, '2/C13', 'Kani steps from every sorted duplicate-free buffer of <= 3 entries (symbolic contents, built through the verif_from_raw hook; key list: any cached earliest expiration that is a lower bound) for every trait method of MapList, SetList, KeyExpList against the closed-form reference of C01/C04-C09; neighbour steps past either end give the sentinel.', '<= 3 stored entries; unwind 6 with unwinding assertions'),
 'C14': (E2 + ' ; ' + E3, T_E2 + ' ; public API: ' + T_E3, '2/C14', 'Kani on Layout::new/index/count through read-only hook wrappers with fully symbolic (lo, hi, x, y): Some iff > 16 points, index(lo)=0, index(hi)<32, monotone, common power-of-two width (smallest covering), count = index(hi)+32, every mask bit below count - for all i32, all u32 and all i64 domains whose length fits: no bound on the domain. Through the public API (MIR executor): SegExpTree::new is Some iff > 16 points and single-point / whole-domain inserts and queries at lo, hi and the middle behave and stay in bounds for 19 concrete domains (14..17 points, 2^k and 2^k+1, negative, partial last bucket, the full i32 range).', 'public-API part: concrete domain family (a fully symbolic SegExpTree::new harness ran CBMC out of memory after 990 s)'),
 'C15': (E2 + ' ; ' + E3, T_E2 + ' ; observed through the tree: ' + T_E3, '2/C15', 'Kani, all four bucket bounds symbolic: place & visit != 0 iff ranges overlap; places tile [a,b] (exactly one ancestor-or-self per bucket inside, none outside); popcount <= 8; bit 63 clear - the whole finite space in one query; through the tree: one insert stores exactly one copy at each place of the mask.', 'none beyond the trusted base (rustc -> Kani -> CBMC)'),
 'C16': (E3, T_E3, '3/C16', 'Same histories as C03; after every fully consumed whole-domain query at symbolic time t: every stored copy has expiration >= t, and every value with expiration >= t still has all its copies (none lost).', 'as C03'),
 'C17': (E1, T_E1, '2/C17', 'Insert step on map and set: every in-tree slot stays in the tree with the same key and value (insert never moves entities); histories: handle taken, insertion(s), read through the handle and re-lookup give the same entry.', 'bounds as C01'),
 'C18': (E1 + ' ; ' + E2, T_E1 + ' ; lists/segment tree: ' + T_E2, '2/C18', 'Trees: at every user-callback invocation of every explored path the tree state is recorded; obligations: invariant holds there and the abstraction equals that before or after the operation; cleanup blocks reachable from call unwind edges audited to touch only locals. Key list and segment tree: Kani with a symbolic callback fuse inspecting the collection at the panic point.', 'Kani has no unwinding: the state at the callback stands for the state after unwinding (justified by the cleanup audit); panics inside Vec::retain (KeyExpList::clear_expired) are outside the claim; map/set list callbacks happen before any mutation (binary search) - covered by C13 harnesses only'),
 'C19': (E1 + ' ; ' + E2, T_E1 + ' ; list variant: ' + T_E2, '2/C19', 'Every Vec::with_capacity reached in into_ordered_vec records its argument; obligation: capacity <= 2*(stored entries) + 8 for every arena within the bound, and for the returned vector; list variant by Kani.', 'the step from n <= 5 to millions of entries is analytic (capacity is an arithmetic function of slot counters), not machine-checked'),
 'C20': (E1 + ' ; ' + E2, T_E1 + ' ; list: ' + T_E2, '2/C20', 'At every K::cmp / K::lt / comparator-closure call inside insert, get_value and the three predecessor queries at time t, every key argument is the operation\'s own key or has expiration > t (tree: obligation on every explored path; list: asserting instrumented key type under Kani).', 'bounds as C01; list <= 3 entries'),
}

props = [json.loads(l) for l in open(os.path.join(V, 'properties.jsonl'))]
na = []
checks = []
for p in props:
    pid = p['id']
    if pid not in CLAIMS:
        na.append({'property_id': pid, 'reason': 'not claimed'})
        continue
    eng, tech, ref, text, note = CLAIMS[pid]
    checks.append({
        'property_id': pid,
        'quick_cmd': f'./check {pid} --tier quick',
        'thorough_cmd': f'./check {pid} --tier thorough',
        'evidence_file': f'/verif/evidence/{pid}.json',
        'replay_cmd_template': f'./check {pid} --replay {{path}}',
        'engine': eng,
        'level_claimed': {'category': 'model_checking', 'text': text, 'design_ref': 'DESIGN.md section ' + ref},
        'level_note': note,
        'technique': tech,
    })
hooks = subprocess.run(['git', '-C', '/repo', 'log', '--format=%h %s', '--grep', '^verif hook'], capture_output=True, text=True).stdout.strip().splitlines()
m = {
    'version': 1,
    'setup_cmd': 'true',
    'hooks': {'guard': '--cfg ishape_rust_itree_verif',
              'enable': "RUSTFLAGS='--cfg ishape_rust_itree_verif' on a scratch copy of /repo (native replay crate and Kani harness crate); the MIR executor needs no hooks",
              'baseline_off_cmd': 'cd /repo && cargo test --workspace --no-fail-fast --offline',
              'source_commits': [h.split()[0] for h in hooks], 'add_only': True},
    'engines': [
        {'name': 'mirsym', 'path': '/verif/mirsym', 'serves_properties': [c['property_id'] for c in checks if 'mirsym' in c['engine']],
         'kind_free_text': 'symbolic executor for the rustc MIR dump of /repo (regenerated every run) + z3; inductive steps from symbolic arenas, bounded public-API histories, invariant lemmas'},
        {'name': 'kani', 'path': '/verif/kani', 'serves_properties': [c['property_id'] for c in checks if 'kani' in c['engine']],
         'kind_free_text': 'Kani proof harness crate built against a scratch copy of /repo with the hooks enabled'},
        {'name': 'replay', 'path': '/verif/replay', 'serves_properties': [c['property_id'] for c in checks if 'mirsym' in c['engine']],
         'kind_free_text': 'native replayer: runs a concrete public-API history against the real crate (dev and release) with an independent reference model; confirms every solver counterexample before a VIOLATION line'},
    ],
    'checks': checks,
    'not_applicable': na,
    'notes': 'exit codes: 0 held, 1 VIOLATION (natively confirmed), 2 inconclusive (timeout / unsupported construct / unconfirmed counterexample; never success). known_findings.json lists repaired defects (fixed:) and would list suppressed ones (known).',
}
json.dump(m, open(os.path.join(V, 'MANIFEST.json'), 'w'), indent=1)
print('checks', len(checks), 'not_applicable', len(na))
