#!/usr/bin/env python3
"""prints the markdown table of seeded changes from /verif/seeded/*/meta.json"""
import json, os
rows = []
for d in sorted(os.listdir('/verif/seeded')):
    m = json.load(open(f'/verif/seeded/{d}/meta.json'))
    caught = ', '.join(m.get('caught_by', [])) or '—'
    runs = '; '.join(f'{k}: {v.split(" (")[0]}' for k, v in m.get('checks_run', {}).items())
    rows.append(f"| {d} | {m['property']} | {m['summary'][:150].replace('|','/')} | {m['needs'][:130].replace('|','/')} | {caught} | {runs} |")
print('| id | breaks | change | needs | caught by | runs |\n|---|---|---|---|---|---|')
print('\n'.join(rows))
