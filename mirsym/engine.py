"""Symbolic executor for the MIR subset used by iTree's arena trees.

Memory model (all pure QF_BV, no array theory):
  * scalars       z3 BitVec / Bool terms (constants folded eagerly)
  * aggregates    python lists of values (struct, tuple), immutable by convention (functional update)
  * enums         ['enum', discr(BV64), [payload...]]   (Option, Ordering);  field-less Color is a BV8
  * Vec<T>        VecVal(len: BV64, cells: python list of cell values, cap: BV64)
                  read at symbolic index = ite-chain over cells, write = per-cell ite
  * references    Ref(root, path) with root ('frame', fid, local) | ('heap', name)

Every slice access records an obligation `idx < len`, every MIR assert / panic / unwrap(None) records an
obligation, every loop/recursion bound records an unwinding obligation.  Obligations are *checked then
assumed*: the final query of a path asks for a model in which the first failing obligation fails.
"""
import re
import sys
import z3

from .mir import Program, parse_place

sys.setrecursionlimit(20000)

EMPTY32 = z3.BitVecVal(0xFFFFFFFF, 32)


class Unsupported(Exception):
    pass


class Ref:
    __slots__ = ('root', 'path')

    def __init__(s, root, path=()):
        s.root = root
        s.path = path

    def __repr__(s):
        return f'Ref({s.root},{s.path})'


class VecVal:
    __slots__ = ('len', 'cells', 'cap')

    def __init__(s, length, cells, cap=None):
        s.len = length
        s.cells = cells
        s.cap = cap if cap is not None else length

    def __repr__(s):
        return f'Vec(len={s.len}, n={len(s.cells)})'


class Unit:
    def __repr__(s):
        return '()'


UNIT = Unit()


class Opaque:
    def __init__(s, what=''):
        s.what = what

    def __repr__(s):
        return f'Opaque({s.what})'


# ---------------------------------------------------------------- term helpers (constant folding)
def bv(v, w):
    return z3.BitVecVal(v, w)


def is_conc(x):
    return z3.is_bv_value(x) or z3.is_true(x) or z3.is_false(x)


def cint(x):
    return x.as_long()


TRUE = z3.BoolVal(True)
FALSE = z3.BoolVal(False)


def b_and(*xs):
    out = []
    for x in xs:
        if z3.is_false(x):
            return FALSE
        if z3.is_true(x):
            continue
        out.append(x)
    if not out:
        return TRUE
    return out[0] if len(out) == 1 else z3.And(out)


def b_or(*xs):
    out = []
    for x in xs:
        if z3.is_true(x):
            return TRUE
        if z3.is_false(x):
            continue
        out.append(x)
    if not out:
        return FALSE
    return out[0] if len(out) == 1 else z3.Or(out)


def b_not(x):
    if z3.is_true(x):
        return FALSE
    if z3.is_false(x):
        return TRUE
    return z3.Not(x)


def b_eq(a, b):
    if z3.is_bv_value(a) and z3.is_bv_value(b):
        return TRUE if a.as_long() == b.as_long() else FALSE
    if a.eq(b):
        return TRUE
    return a == b


def b_ult(a, b):
    if z3.is_bv_value(a) and z3.is_bv_value(b):
        return TRUE if a.as_long() < b.as_long() else FALSE
    return z3.ULT(a, b)


def b_ule(a, b):
    if z3.is_bv_value(a) and z3.is_bv_value(b):
        return TRUE if a.as_long() <= b.as_long() else FALSE
    return z3.ULE(a, b)


def ite(c, a, b):
    if z3.is_true(c):
        return a
    if z3.is_false(c):
        return b
    if a is b or (isinstance(a, z3.ExprRef) and isinstance(b, z3.ExprRef) and a.eq(b)):
        return a
    return z3.If(c, a, b)


def is_enum(v):
    return isinstance(v, list) and len(v) == 3 and isinstance(v[0], str) and v[0] == 'enum'


def merge(c, a, b):
    """leafwise If(c, a, b) over aggregates"""
    if a is b:
        return a
    if isinstance(a, list):
        if not isinstance(b, list) or len(a) != len(b):
            raise Unsupported('merge of differently shaped aggregates')
        if is_enum(a):
            return ['enum', merge(c, a[1], b[1]), merge(c, a[2], b[2])]
        return [merge(c, x, y) for x, y in zip(a, b)]
    if isinstance(a, z3.ExprRef):
        return ite(c, a, b)
    if isinstance(a, (Unit, Opaque)) :
        return a
    if isinstance(a, str) and a == b:
        return a
    raise Unsupported(f'merge of {type(a)}')


def zext(x, w):
    if x.size() == w:
        return x
    if z3.is_bv_value(x):
        return bv(x.as_long(), w)
    return z3.ZeroExt(w - x.size(), x)


INT_W = {'u8': 8, 'i8': 8, 'u16': 16, 'i16': 16, 'u32': 32, 'i32': 32, 'u64': 64, 'i64': 64, 'usize': 64, 'isize': 64}


# ---------------------------------------------------------------- state
class Frame:
    __slots__ = ('fn', 'loc', 'bb', 'ip', 'fid', 'dest', 'ret', 'unwind', 'visits')

    def __init__(s, fn, fid):
        s.fn = fn
        s.loc = {}
        s.bb = 'bb0'
        s.ip = 0
        s.fid = fid
        s.dest = None      # place in the caller to store the result
        s.ret = None       # bb in caller to continue at
        s.unwind = None
        s.visits = {}

    def clone(s):
        f = Frame(s.fn, s.fid)
        f.loc = dict(s.loc)
        f.bb, f.ip, f.dest, f.ret, f.unwind = s.bb, s.ip, s.dest, s.ret, s.unwind
        f.visits = dict(s.visits)
        return f


class State:
    def __init__(s):
        s.frames = []
        s.heap = {}
        s.events = None      # persistent linked list (prev, item); item = ('assume', c) | ('oblig', c, kind, desc)
        s.nfid = 0
        s.aux = {}           # harness data (callback log, recorded capacities ...) ; values must be immutable or copied by harness
        s.result = None
        s.cond = None        # branch condition to assert when this state is scheduled
        s.depth = 0
        s.dead = None

    def clone(s):
        n = State()
        n.frames = [f.clone() for f in s.frames]
        n.heap = dict(s.heap)
        n.events = s.events
        n.nfid = s.nfid
        n.aux = {k: (list(v) if isinstance(v, list) else (dict(v) if isinstance(v, dict) else v)) for k, v in s.aux.items()}
        n.depth = s.depth
        n.dead = s.dead
        return n

    def event(s, item):
        s.events = (s.events, item)

    def event_list(s):
        out = []
        e = s.events
        while e is not None:
            out.append(e[1])
            e = e[0]
        out.reverse()
        return out


class Limits:
    def __init__(s, loop=12, rec=24, steps=3000000):
        s.loop, s.rec, s.steps = loop, rec, steps


class Engine:
    """Depth-first path exploration.  `instance` supplies the instantiation-specific intrinsics."""

    def __init__(s, program, instance, limits=None, solver=None, on_path=None, stats=None):
        s.P = program
        s.inst = instance
        s.lim = limits or Limits()
        s.solver = solver or z3.SolverFor('QF_BV')
        s.on_path = on_path
        s.stats = stats if stats is not None else {}
        for k in ('paths', 'solver_calls', 'solver_s', 'steps', 'forks', 'pruned'):
            s.stats.setdefault(k, 0)
        s.level = 0
        s.deadline = None    # optional wall-clock limit (epoch seconds); exceeding it makes the run inconclusive
        s.on_return = None   # history mode: called when the outermost frame returns; may push the next call
        s.trace = False
        s.fns_seen = set()

    # ------------------------------------------------------------ solver plumbing
    def feasible(s, cond):
        import time
        t = time.time()
        s.solver.push()
        s.solver.add(cond)
        r = s.solver.check()
        s.solver.pop()
        s.stats['solver_calls'] += 1
        s.stats['solver_s'] += time.time() - t
        if r == z3.unknown:
            raise Unsupported('solver unknown on feasibility')
        return r == z3.sat

    def concretize(s, term):
        """the unique value of `term` under the current path condition, or None"""
        if z3.is_bv_value(term):
            return term.as_long()
        if s.solver.check() != z3.sat:
            return None
        v = s.solver.model().eval(term, model_completion=True)
        if not z3.is_bv_value(v):
            return None
        if s.feasible(term != v):
            return None
        return v.as_long()

    def explore(s, st0):
        stack = [(st0, 0)]
        while stack:
            st, lvl = stack.pop()
            while s.level > lvl:
                s.solver.pop()
                s.level -= 1
            if st.cond is not None:
                s.solver.push()
                s.level += 1
                s.solver.add(st.cond)
                st.event(('assume', st.cond))
                st.cond = None
            children = s.run(st)
            if children:
                for c in reversed(children):
                    stack.append((c, s.level))
        while s.level > 0:
            s.solver.pop()
            s.level -= 1

    def fork(s, st, alts):
        """alts: list of (cond, apply(st)) ; returns list of child states (feasible ones)"""
        cands = []
        for c, ap in alts:
            if isinstance(c, z3.ExprRef):
                c = z3.simplify(c)
            if z3.is_false(c):
                continue
            cands.append((c, ap))
        if not cands:
            raise Unsupported('fork with no alternative')
        if len(cands) == 1 and z3.is_true(cands[0][0]):
            cands[0][1](st)
            return None
        feas = []
        for i, (c, ap) in enumerate(cands):
            if z3.is_true(c):
                feas.append((c, ap))
                continue
            if i == len(cands) - 1 and not feas:
                feas.append((c, ap))      # alternatives are exhaustive and the path is feasible: last one must be
                continue
            if s.feasible(c):
                feas.append((c, ap))
            else:
                s.stats['pruned'] += 1
        if len(feas) == 1:
            c, ap = feas[0]
            if not z3.is_true(c):
                s.solver.push()
                s.level += 1
                s.solver.add(c)
                st.event(('assume', c))
            ap(st)
            return None
        s.stats['forks'] += 1
        out = []
        for i, (c, ap) in enumerate(feas):
            ch = st if i == len(feas) - 1 else st.clone()
            ap(ch)
            ch.cond = c
            out.append(ch)
        return out

    def oblige(s, st, cond, kind, desc):
        if isinstance(cond, z3.ExprRef):
            if z3.is_true(cond):
                s.stats['oblig_trivial'] = s.stats.get('oblig_trivial', 0) + 1
                return
        st.event(('oblig', cond, kind, desc))
        if kind == 'post':
            return                   # functional post-conditions are checked, never assumed (they must not mask each other)
        if z3.is_false(cond):
            st.dead = st.dead or 'failed-' + kind      # the path ends here (the obligation is reported by the final query)
        else:
            s.solver.add(cond)       # safety obligations are checked-then-assumed (scoped by the enclosing push)

    # ------------------------------------------------------------ memory
    def frame_of(s, st, fid):
        for f in reversed(st.frames):
            if f.fid == fid:
                return f
        raise Unsupported('dangling reference to a dead frame')

    def read_root(s, st, root):
        if root[0] == 'frame':
            fr = s.frame_of(st, root[1])
            if root[2] not in fr.loc:
                raise Unsupported(f'read of uninitialised local {root[2]} in {fr.fn.name}')
            return fr.loc[root[2]]
        return st.heap[root[1]]

    def write_root(s, st, root, v):
        if root[0] == 'frame':
            s.frame_of(st, root[1]).loc[root[2]] = v
        else:
            st.heap[root[1]] = v

    def vec_pick(s, st, vec, idx, what):
        s.oblige(st, b_ult(idx, vec.len), 'bounds', what)
        if z3.is_bv_value(idx):
            i = idx.as_long()
            if i >= len(vec.cells):
                if st.dead:
                    return vec.cells[0]
                raise Unsupported(f'index {i} beyond modelled cells ({len(vec.cells)})')
            return vec.cells[i]
        r = vec.cells[-1]
        for j in range(len(vec.cells) - 2, -1, -1):
            r = merge(idx == j, vec.cells[j], r)
        return r

    def read_path(s, st, v, path):
        for step in path:
            if step[0] == 'f':
                if is_enum(v):
                    v = v[2][step[1]]
                else:
                    v = v[step[1]]
            elif step[0] == 'i':
                if not isinstance(v, VecVal):
                    raise Unsupported('index into non-vec')
                v = s.vec_pick(st, v, step[1], 'slice read')
            elif step[0] == 'dc':
                pass
            else:
                raise Unsupported('path step')
        return v

    def read(s, st, ref):
        return s.read_path(st, s.read_root(st, ref.root), ref.path)

    def _write(s, st, cur, path, val):
        if not path:
            return val
        step = path[0]
        if step[0] == 'f':
            if is_enum(cur):
                pl = list(cur[2])
                pl[step[1]] = s._write(st, pl[step[1]], path[1:], val)
                return ['enum', cur[1], pl]
            new = list(cur)
            new[step[1]] = s._write(st, cur[step[1]], path[1:], val)
            return new
        if step[0] == 'dc':
            return s._write(st, cur, path[1:], val)
        if step[0] == 'i':
            idx = step[1]
            s.oblige(st, b_ult(idx, cur.len), 'bounds', 'slice write')
            cells = list(cur.cells)
            if z3.is_bv_value(idx):
                i = idx.as_long()
                if i >= len(cells):
                    if st.dead:
                        return cur
                    raise Unsupported(f'write index {i} beyond modelled cells')
                cells[i] = s._write(st, cells[i], path[1:], val)
            else:
                for j in range(len(cells)):
                    cells[j] = merge(idx == j, s._write(st, cells[j], path[1:], val), cells[j])
            return VecVal(cur.len, cells, cur.cap)
        raise Unsupported('write path')

    def write(s, st, ref, val):
        if not ref.path:
            s.write_root(st, ref.root, val)
        else:
            s.write_root(st, ref.root, s._write(st, s.read_root(st, ref.root), ref.path, val))

    def resolve(s, st, frame, place):
        local, projs = place
        ref = Ref(('frame', frame.fid, local), ())
        for p in projs:
            if p[0] == 'deref':
                v = s.read(st, ref)
                if not isinstance(v, Ref):
                    raise Unsupported(f'deref of non-reference {v!r} in {frame.fn.name}')
                ref = v
            elif p[0] == 'field':
                ref = Ref(ref.root, ref.path + (('f', p[1]),))
            elif p[0] == 'downcast':
                ref = Ref(ref.root, ref.path + (('dc', p[1]),))
            elif p[0] == 'index':
                ref = Ref(ref.root, ref.path + (('i', frame.loc[p[1]]),))
        return ref

    # ------------------------------------------------------------ operands / rvalues
    def const(s, st, frame, c):
        m = re.match(r'^(-?\d+)_(\w+)$', c)
        if m:
            w = INT_W.get(m.group(2))
            if w is None:
                raise Unsupported('const type ' + c)
            return bv(int(m.group(1)), w)
        if c == 'true':
            return TRUE
        if c == 'false':
            return FALSE
        if c == 'EMPTY_REF' or c.endswith('::EMPTY_REF') or c == 'u32::MAX' or c.endswith('u32>::MAX'):
            return EMPTY32
        if c.endswith('usize>::MAX') or c == 'usize::MAX':
            return bv((1 << 64) - 1, 64)
        if c.endswith('::NIL_INDEX') or c == 'NIL_INDEX':
            f = [fn for n, fn in s.P.fns.items() if n.endswith('NIL_INDEX') and n.split('::')[0] == frame.fn.name.split('::')[0]]
            if len(f) != 1:
                raise Unsupported('NIL_INDEX resolution')
            return s.eval_const_item(st, f[0])
        if 'promoted[' in c:
            name = frame.fn.name + '::' + c.split('::')[-1]
            pf = s.P.fns.get(name)
            if pf is None:
                raise Unsupported('promoted ' + name)
            v = s.eval_const_item(st, pf)
            return v
        if c == '()':
            return UNIT
        if re.match(r'^Option::<.*>::None$', c):
            return ['enum', bv(0, 64), []]
        if c.startswith('"') or c.startswith('b"'):
            return Opaque('str')
        if c.startswith('ZeroSized'):
            if 'PhantomData' in c:
                return []
            return Opaque(c)
        if c.startswith('{transmute('):
            raise Unsupported('const ' + c)
        return s.inst.const(s, st, frame, c)

    def eval_const_item(s, st, fn):
        """run a const/promoted body on a private frame; references to its locals are moved to the heap"""
        key = 'const:' + fn.name
        if key in st.heap:
            return st.heap[key]
        sub = State()
        sub.heap = st.heap
        fr = Frame(fn, -1 - len(st.heap))
        sub.frames = [fr]
        res = {}
        while True:
            stmts = s.P.block(fn, fr.bb)
            stmt = stmts[fr.ip]
            fr.ip += 1
            if stmt[0] == 'assign':
                s.write(sub, s.resolve(sub, fr, stmt[1]), s.rvalue(sub, fr, stmt[2]))
            elif stmt[0] == 'return':
                break
            elif stmt[0] == 'goto':
                fr.bb, fr.ip = stmt[1], 0
            elif stmt[0] == 'nop':
                pass
            elif stmt[0] == 'assert':
                v = s.operand(sub, fr, stmt[2])
                cond = b_not(s.truth(v)) if stmt[1] else s.truth(v)
                if not z3.is_true(z3.simplify(cond)):
                    raise Unsupported('assert in const item does not hold')
                fr.bb, fr.ip = stmt[4], 0
            elif stmt[0] == 'call':
                args = [s.operand(sub, fr, a) for a in stmt[3]]
                v = s.inst.pure_call(stmt[2], args)
                if v is NotImplemented:
                    raise Unsupported(f'const item call {stmt[2]}')
                s.write(sub, s.resolve(sub, fr, stmt[1]), v)
                fr.bb, fr.ip = stmt[4], 0
            else:
                raise Unsupported(f'const item stmt {stmt}')
        v = fr.loc['_0']
        if isinstance(v, Ref) and v.root[0] == 'frame':
            hk = key + ':' + v.root[2]
            st.heap[hk] = fr.loc[v.root[2]]
            v = Ref(('heap', hk), v.path)
        st.heap[key] = v
        return v

    def operand(s, st, frame, op):
        k = op[0]
        if k == 'copy' or k == 'move':
            local, projs = op[1]
            if not projs:
                try:
                    return frame.loc[local]
                except KeyError:
                    raise Unsupported(f'read of uninitialised local {local} in {frame.fn.name}')
            return s.read(st, s.resolve(st, frame, op[1]))
        return s.const(st, frame, op[1])

    def truth(s, v):
        if z3.is_bool(v):
            return v
        return v != 0

    def binop(s, op, a, b, signed):
        if isinstance(a, Ref) or isinstance(b, Ref):
            raise Unsupported('pointer arithmetic/comparison')
        if z3.is_bool(a) and z3.is_bool(b):
            if op == 'Eq':
                return a == b
            if op == 'Ne':
                return a != b
            if op == 'BitAnd':
                return b_and(a, b)
            if op == 'BitOr':
                return b_or(a, b)
            if op == 'BitXor':
                return z3.Xor(a, b)
            raise Unsupported('bool binop ' + op)
        if op in ('Shl', 'Shr', 'ShlUnchecked', 'ShrUnchecked') and a.size() != b.size():
            b = zext(b, a.size()) if b.size() < a.size() else z3.Extract(a.size() - 1, 0, b)
        conc = z3.is_bv_value(a) and z3.is_bv_value(b)
        if op == 'Eq':
            return b_eq(a, b)
        if op == 'Ne':
            return b_not(b_eq(a, b))
        if op in ('Lt', 'Le', 'Gt', 'Ge'):
            if signed:
                r = {'Lt': a < b, 'Le': a <= b, 'Gt': a > b, 'Ge': a >= b}[op]
            else:
                r = {'Lt': z3.ULT(a, b), 'Le': z3.ULE(a, b), 'Gt': z3.UGT(a, b), 'Ge': z3.UGE(a, b)}[op]
            return z3.simplify(r) if conc else r
        if op in ('Add', 'AddUnchecked'):
            r = a + b
        elif op in ('Sub', 'SubUnchecked'):
            r = a - b
        elif op == 'Mul':
            r = a * b
        elif op == 'BitAnd':
            r = a & b
        elif op == 'BitOr':
            r = a | b
        elif op == 'BitXor':
            r = a ^ b
        elif op in ('Shl', 'ShlUnchecked'):
            r = a << b
        elif op in ('Shr', 'ShrUnchecked'):
            r = (a >> b) if signed else z3.LShR(a, b)
        elif op == 'AddWithOverflow':
            ov = z3.Not(z3.BVAddNoOverflow(a, b, signed)) if not signed else z3.Or(z3.Not(z3.BVAddNoOverflow(a, b, True)), z3.Not(z3.BVAddNoUnderflow(a, b)))
            r0 = a + b
            if conc:
                return [z3.simplify(r0), z3.simplify(ov)]
            return [r0, ov]
        elif op == 'SubWithOverflow':
            ov = z3.Not(z3.BVSubNoUnderflow(a, b, signed)) if not signed else z3.Or(z3.Not(z3.BVSubNoOverflow(a, b)), z3.Not(z3.BVSubNoUnderflow(a, b, True)))
            r0 = a - b
            if conc:
                return [z3.simplify(r0), z3.simplify(ov)]
            return [r0, ov]
        elif op == 'MulWithOverflow':
            ov = z3.Not(z3.BVMulNoOverflow(a, b, signed))
            r0 = a * b
            if conc:
                return [z3.simplify(r0), z3.simplify(ov)]
            return [r0, ov]
        else:
            raise Unsupported('binop ' + op)
        return z3.simplify(r) if conc else r

    def signed_of(s, frame, op):
        if op[0] in ('copy', 'move'):
            local, projs = op[1]
            if not projs:
                t = frame.fn.locals.get(local, '')
                return t in ('i8', 'i16', 'i32', 'i64', 'isize')
            return False
        m = re.match(r'^-?\d+_(\w+)$', op[1])
        return bool(m) and m.group(1).startswith('i')

    def rvalue(s, st, frame, rv):
        k = rv[0]
        if k == 'use':
            return s.operand(st, frame, rv[1])
        if k == 'ref':
            return s.resolve(st, frame, rv[1])
        if k == 'binop':
            a = s.operand(st, frame, rv[2])
            b = s.operand(st, frame, rv[3])
            return s.binop(rv[1], a, b, s.signed_of(frame, rv[2]))
        if k == 'unop':
            v = s.operand(st, frame, rv[2])
            if rv[1] == 'Not':
                if z3.is_bool(v):
                    return b_not(v)
                return ~v
            return -v
        if k == 'discr':
            v = s.read(st, s.resolve(st, frame, rv[1]))
            if is_enum(v):
                return v[1]
            if isinstance(v, z3.ExprRef) and z3.is_bv(v):
                return zext(v, 64)
            raise Unsupported(f'discriminant of {v!r}')
        if k == 'cast':
            v = s.operand(st, frame, rv[1])
            if rv[3] != 'IntToInt':
                raise Unsupported('cast kind ' + rv[3])
            w = INT_W.get(rv[2])
            if w is None:
                raise Unsupported('cast to ' + rv[2])
            if w > v.size():
                r = z3.SignExt(w - v.size(), v) if s.signed_of(frame, rv[1]) else z3.ZeroExt(w - v.size(), v)
            elif w < v.size():
                r = z3.Extract(w - 1, 0, v)
            else:
                r = v
            return z3.simplify(r) if z3.is_bv_value(v) else r
        if k == 'color':
            return bv(rv[1], 8)
        if k == 'enum':
            return ['enum', bv(rv[1], 64), [s.operand(st, frame, o) for o in rv[2]]]
        if k == 'aggr':
            return [s.operand(st, frame, o) for o in rv[1]]
        if k == 'opaque':
            return Opaque()
        if k == 'repeat':
            v = s.operand(st, frame, rv[1])
            return VecVal(bv(rv[2], 64), [v] * rv[2], bv(rv[2], 64))        # fixed-size array
        raise Unsupported(f'rvalue {rv}')

    # ------------------------------------------------------------ running
    def push_call(s, st, fn, args, dest, ret, unwind):
        if len(st.frames) > s.lim.rec:
            s.oblige(st, FALSE, 'unwind', f'recursion deeper than {s.lim.rec} frames at {fn.name}')
            st.dead = 'unwind-bound'
            return None
        fr = Frame(fn, st.nfid)
        st.nfid += 1
        for i, a in enumerate(args):
            fr.loc[f'_{i + 1}'] = a
        fr.dest, fr.ret, fr.unwind = dest, ret, unwind
        st.frames.append(fr)
        s.fns_seen.add(fn.name)
        return None

    def finish_path(s, st, status):
        s.stats['paths'] += 1
        if s.on_path:
            s.on_path(s, st, status)

    def run(s, st):
        """run until the path ends (returns None) or forks (returns children)"""
        P = s.P
        while True:
            if st.dead:
                s.finish_path(st, st.dead)
                return None
            s.stats['steps'] += 1
            if s.stats['steps'] > s.lim.steps:
                raise Unsupported('step limit')
            if s.deadline is not None and s.stats['steps'] % 2000 == 0:
                import time as _t
                if _t.time() > s.deadline:
                    raise Unsupported('deadline exceeded')
            fr = st.frames[-1]
            stmts = P.block(fr.fn, fr.bb)
            stmt = stmts[fr.ip]
            fr.ip += 1
            k = stmt[0]
            if s.trace:
                print('   ' * len(st.frames), fr.fn.name.split('::')[-1], fr.bb, stmt)
            if k == 'assign':
                s.write(st, s.resolve(st, fr, stmt[1]), s.rvalue(st, fr, stmt[2]))
            elif k == 'nop':
                pass
            elif k == 'goto':
                s.jump(st, fr, stmt[1])
            elif k == 'switch':
                v = s.operand(st, fr, stmt[1])
                alts = []
                negs = []
                for val, tgt in stmt[2]:
                    if z3.is_bool(v):
                        c = v if val else b_not(v)
                    else:
                        c = b_eq(v, bv(val, v.size()))
                    alts.append((c, tgt))
                    negs.append(b_not(c))
                if stmt[3]:
                    alts.append((b_and(*negs), stmt[3]))

                def mk(tgt):
                    def ap(st2):
                        s.jump(st2, st2.frames[-1], tgt)
                    return ap
                ch = s.fork(st, [(c, mk(t)) for c, t in alts])
                if ch is not None:
                    return ch
            elif k == 'return':
                ret = fr.loc.get('_0', UNIT)
                st.frames.pop()
                if not st.frames:
                    st.result = ret
                    if s.on_return is not None:
                        r = s.on_return(s, st)
                        if r == 'continue':
                            continue
                        if isinstance(r, list):
                            return r
                    s.finish_path(st, 'ok')
                    return None
                caller = st.frames[-1]
                # references into the dead frame must not escape
                if isinstance(ret, Ref) and ret.root[0] == 'frame' and ret.root[1] == fr.fid:
                    raise Unsupported('reference to local escapes ' + fr.fn.name)
                s.write(st, s.resolve(st, caller, fr.dest), ret)
                s.jump(st, caller, fr.ret)
            elif k == 'call':
                r = s.call(st, fr, stmt)
                if r == 'end':
                    return None
                if r is not None:
                    return r
            elif k == 'assert':
                v = s.operand(st, fr, stmt[2])
                cond = b_not(s.truth(v)) if stmt[1] else s.truth(v)
                s.oblige(st, cond, 'assert', f'{fr.fn.name.split("::")[-1]}: {stmt[3][:60]}')
                if z3.is_false(cond):
                    s.finish_path(st, 'panic')
                    return None
                s.jump(st, fr, stmt[4])
            elif k == 'drop':
                s.inst.drop(s, st, fr, stmt[1])
                s.jump(st, fr, stmt[2])
            elif k == 'unreachable':
                s.oblige(st, FALSE, 'assert', 'reached `unreachable` in ' + fr.fn.name)
                s.finish_path(st, 'panic')
                return None
            else:
                raise Unsupported(f'statement {stmt} in {fr.fn.name}')

    def jump(s, st, fr, bb):
        n = fr.visits.get(bb, 0) + 1
        fr.visits[bb] = n
        if n > s.lim.loop:
            s.oblige(st, FALSE, 'unwind', f'loop bound {s.lim.loop} exceeded in {fr.fn.name.split("::")[-1]} {bb}')
            st.dead = 'unwind-bound'
            return None
        fr.bb = bb
        fr.ip = 0
        return None

    def ret_value(s, st, fr, stmt, v):
        """complete an intrinsic call: store v, continue at the return block"""
        s.write(st, s.resolve(st, fr, stmt[1]), v)
        if stmt[4] is None:
            raise Unsupported('intrinsic returned into diverging call')
        return s.jump(st, fr, stmt[4])

    def call(s, st, fr, stmt):
        _, dest, callee, argops, ret, unwind = stmt
        args = [s.operand(st, fr, a) for a in argops]
        # 1. crate-local function?
        fn = s.inst.resolve_fn(s, fr, callee, args)
        if fn is not None and fn.name.split('::')[-1] in s.inst.summaries:
            v = s.inst.summaries[fn.name.split('::')[-1]](s, st, fr, args)
            s.stats['summaries'] = s.stats.get('summaries', 0) + 1
            s.ret_value(st, fr, stmt, v)
            return None
        if fn is not None:
            if ret is None:
                raise Unsupported('diverging crate call ' + callee)
            s.push_call(st, fn, args, dest, ret, unwind)
            return None
        # 2. panics (diverging)
        if ret is None:
            s.oblige(st, FALSE, 'panic', f'{fr.fn.name.split("::")[-1]}: {callee[:50]}')
            s.finish_path(st, 'panic')
            return 'end'
        # 3. intrinsics
        r = s.inst.intrinsic(s, st, fr, stmt, callee, args)
        if r is NotImplemented:
            raise Unsupported(f'callee {callee} (from {fr.fn.name})')
        return r
