"""Inductive-step harnesses: one public operation from an arbitrary arena satisfying the representation
invariant, with arbitrary arguments; obligations = memory-safety/panic channel + post-conditions tagged by property."""
import time
import json
import z3

from .engine import (Engine, State, Limits, Unsupported, Ref, VecVal, UNIT, Opaque, bv, b_and, b_or, b_not, b_eq, b_ult,
                     ite, merge, TRUE, FALSE, EMPTY32)
from .trees import (INSTANCES, View, fresh_arena, inv_witness, inv_closed, conj, count_in, lookup, count_key, pred_ref,
                    KW, VW, EW, k2)

STRUCT = ['shape', 'links', 'redred', 'colour', 'bst', 'black', 'sentinel', 'linktyped', 'stale']


class Ctx:
    pass


def val_eq(a, b):
    return z3.And([x == y for x, y in zip(a, b)]) if a else TRUE


def alpha_eq(vpost, itpost, vpre, itpre, tag, patch=None, t=None):
    """for a fresh key x: lookup(post, x) == patch(x, lookup(pre, x));  patch returns (found, val)"""
    x = z3.BitVec(f'ax_{tag}', KW)
    f1, v1 = lookup(vpost, itpost, x, t)
    f0, v0 = lookup(vpre, itpre, x, t)
    if patch:
        f0, v0 = patch(x, f0, v0)
    return z3.And(f1 == f0, z3.Implies(f1, val_eq(v1, v0)))


def model_int(m, e):
    v = m.eval(e, model_completion=True)
    if z3.is_bv_value(v):
        return v.as_long()
    if z3.is_true(v):
        return 1
    if z3.is_false(v):
        return 0
    return str(v)


def dump_tree(m, inst, tree):
    v = View(inst, tree)
    out = {'root': model_int(m, v.root), 'buffer_len': v.n,
           'unused': [model_int(m, c) for c in v.unused.cells[:min(model_int(m, v.unused.len), len(v.unused.cells))]],
           'unused_cap': model_int(m, v.unused.cap), 'nodes': []}
    for i in range(v.n):
        nd = {'slot': i, 'parent': model_int(m, v.P[i]), 'left': model_int(m, v.L[i]), 'right': model_int(m, v.R[i]),
              'red': model_int(m, v.C[i]) == 0, 'key': model_int(m, v.K[i]), 'val': [model_int(m, x) for x in v.V[i]]}
        if v.X[i] is not None:
            nd['exp'] = model_int(m, v.X[i])
        out['nodes'].append(nd)
    return out


# ------------------------------------------------------------------------------------------------ op table
def _entry(P, mod, name, nargs, self_ty=None):
    c = [f for f in P.find(mod, name) if f.nargs == nargs and (self_ty is None or self_ty in f.locals.get('_1', ''))]
    if len(c) != 1:
        raise Unsupported(f'entry {mod}::{name}/{nargs}: {c}')
    return c[0]


def standard_post(ctx, st, want_struct=True):
    """structure + accounting of the final tree"""
    inst = ctx.inst
    tree = st.heap['tree']
    post = []
    if tree is ctx.tree:
        ctx.same_tree = True
        return post, ctx.view, ctx.it, None
    v = View(inst, tree)
    if v.n != ctx.view.n:
        # the arena grows only inside get_free_index with an empty free list (every slot in use), by the free list's capacity
        # (any growth policy bounded by a constant multiple of the slots in use satisfies C11: at most tripling, plus a constant)
        ok = ctx.allow_growth and ctx.view.n < v.n <= 3 * ctx.view.n + 8
        post.append(('C11:growth-only-when-full-by-free-list-capacity', TRUE if ok else FALSE))
    elif ctx.allow_growth and ctx.kind != 'key':
        # map / set: an insert into a full arena has to grow it (the key tree may free slots by lazy expiry first)
        post.append(('C11:growth-only-when-full-by-free-list-capacity', FALSE))
    G, it, extra = inv_closed(v)
    post.append(('C02:inv', conj(G, STRUCT)))
    post.append(('C11:accounting', conj(G, ['accounting'])))
    return post, v, it, extra


class Op:
    kind = None
    name = None
    mutates = True
    needs_handle = False

    def setup(s, ctx):
        """returns (entry fn, args, extra assumptions)"""
        raise NotImplementedError

    def post(s, ctx, st):
        raise NotImplementedError

    def describe_args(s, ctx, m):
        return {k: model_int(m, v) for k, v in ctx.sym.items()}


TREE = Ref(('heap', 'tree'))


def sym(ctx, name, w):
    v = z3.BitVec(f'{name}', w)
    ctx.sym[name] = v
    return v


def handle_in_tree(ctx, h):
    return z3.Or([z3.And(h == i, ctx.it[i]) for i in range(1, ctx.view.n)])


# ---- map / set -----------------------------------------------------------------------------------
class MSInsert(Op):
    name = 'insert'

    def setup(s, ctx):
        k = sym(ctx, 'k', KW); v = sym(ctx, 'v', VW)
        found, _ = lookup(ctx.view, ctx.it, k)
        pre = [z3.Not(found)]
        if not ctx.allow_growth:
            pre.append(ctx.view.unused.len != 0)
        else:
            pre.append(ctx.view.unused.len == 0)
        if ctx.kind == 'map':
            return _entry(ctx.P, 'map::tree', 'insert', 3), [TREE, k, v], pre
        return _entry(ctx.P, 'set::tree', 'insert', 2), [TREE, [k, v]], pre

    def post(s, ctx, st):
        post, v, it, _ = standard_post(ctx, st)
        k, val = ctx.sym['k'], ctx.sym['v']
        pid = 'C04' if ctx.kind == 'map' else 'C05'
        post.append((pid + ':alpha-insert', alpha_eq(v, it, ctx.view, ctx.it, 'p', lambda x, f, w: (z3.Or(x == k, f), merge(x == k, [val], w)))))
        hs = []
        for i in range(1, ctx.view.n):
            hs.append(z3.Implies(ctx.it[i], z3.And(it[i], v.K[i] == ctx.view.K[i], val_eq(v.V[i], ctx.view.V[i]))))
        post.append(('C17:handles-stable', z3.And(hs)))
        post.append((pid + ':not-empty', v.root != EMPTY32))
        return post


class MSDelete(Op):
    name = 'delete'

    def setup(s, ctx):
        k = sym(ctx, 'k', KW)
        if ctx.kind == 'map':
            return _entry(ctx.P, 'map::tree', 'delete', 2), [TREE, k], []
        st_key = Ref(('heap', 'argkey'))
        ctx.heap_extra['argkey'] = k
        return _entry(ctx.P, 'set::tree', 'delete', 2), [TREE, st_key], []

    def post(s, ctx, st):
        post, v, it, _ = standard_post(ctx, st)
        k = ctx.sym['k']
        pid = 'C04' if ctx.kind == 'map' else 'C05'
        post.append((pid + ':alpha-delete', alpha_eq(v, it, ctx.view, ctx.it, 'p', lambda x, f, w: (z3.And(x != k, f), w))))
        return post


class MSDeleteByIndex(Op):
    name = 'delete_by_index'
    needs_handle = True

    def setup(s, ctx):
        h = sym(ctx, 'h', 32)
        return _entry(ctx.P, ctx.kind + '::tree', 'delete_by_index', 2), [TREE, h], [handle_in_tree(ctx, h)]

    def post(s, ctx, st):
        post, v, it, _ = standard_post(ctx, st)
        hk = ctx.view.pick(ctx.view.K, ctx.sym['h'])
        post.append(('C08:alpha-delete-by-handle', alpha_eq(v, it, ctx.view, ctx.it, 'p', lambda x, f, w: (z3.And(x != hk, f), w))))
        return post


class MSGet(Op):
    name = 'get_value'
    mutates = False

    def setup(s, ctx):
        k = sym(ctx, 'k', KW)
        if ctx.kind == 'map':
            return _entry(ctx.P, 'map::tree', 'get_value', 2), [TREE, k], []
        ctx.heap_extra['argkey'] = k
        return _entry(ctx.P, 'set::tree', 'get_value', 2), [TREE, Ref(('heap', 'argkey'))], []

    def post(s, ctx, st):
        post, v, it, _ = standard_post(ctx, st)
        k = ctx.sym['k']
        found, val = lookup(ctx.view, ctx.it, k)
        r = st.result
        pid = 'C04' if ctx.kind == 'map' else 'C05'
        is_some = r[1] == 1
        f = [is_some == found]
        if z3.is_bv_value(r[1]) and r[1].as_long() == 1:
            got = ctx.eng.read(st, r[2][0])
            if ctx.kind == 'set':
                f.append(z3.Implies(found, z3.And(got[0] == k, got[1] == val[0])))
            else:
                f.append(z3.Implies(found, got == val[0]))
        post.append((pid + ':get', z3.And(f)))
        post.append((pid + ':readonly', alpha_eq(v, it, ctx.view, ctx.it, 'ro')))
        return post


class MSIsEmpty(Op):
    name = 'is_empty'
    mutates = False

    def setup(s, ctx):
        return _entry(ctx.P, ctx.kind + '::tree', 'is_empty', 1), [TREE], []

    def post(s, ctx, st):
        post, v, it, _ = standard_post(ctx, st)
        pid = 'C04' if ctx.kind == 'map' else 'C05'
        post.append((pid + ':is_empty', st.result == (count_in(ctx.it) == 0)))
        return post


class MSFirstLess(Op):
    name = 'first_index_less'
    mutates = False

    def setup(s, ctx):
        p = sym(ctx, 'p', KW)
        if ctx.kind == 'map':
            return _entry(ctx.P, 'map::tree', 'first_index_less', 2), [TREE, p], []
        ctx.heap_extra['argkey'] = p
        return _entry(ctx.P, 'set::tree', 'first_index_less', 2), [TREE, Ref(('heap', 'argkey'))], []

    def bound(s, ctx):
        p = ctx.sym['p']
        return lambda k: z3.ULE(k, p)

    def post(s, ctx, st):
        post, v, it, _ = standard_post(ctx, st)
        ex, slot, key, val = pred_ref(ctx.view, ctx.it, s.bound(ctx))
        r = st.result
        post.append(('C08:pred-handle', r == ite(ex, slot, EMPTY32)))
        post.append(('C08:readonly', alpha_eq(v, it, ctx.view, ctx.it, 'ro')))
        return post


class MSFirstLessBy(MSFirstLess):
    name = 'first_index_less_by'

    def setup(s, ctx):
        p9 = sym(ctx, 'p9', KW + 1)
        ctx.heap_extra['closure'] = ['closure', p9]
        return _entry(ctx.P, ctx.kind + '::tree', 'first_index_less_by', 2), [TREE, ['closure', p9]], []

    def bound(s, ctx):
        p9 = ctx.sym['p9']
        return lambda k: z3.ULE(k2(k), p9)


class MSValueByIndex(Op):
    name = 'value_by_index'
    mutates = False
    needs_handle = True

    def setup(s, ctx):
        h = sym(ctx, 'h', 32)
        return _entry(ctx.P, ctx.kind + '::tree', 'value_by_index', 2), [TREE, h], [handle_in_tree(ctx, h)]

    def post(s, ctx, st):
        post, v, it, _ = standard_post(ctx, st)
        got = ctx.eng.read(st, st.result)
        h = ctx.sym['h']
        if ctx.kind == 'set':
            post.append(('C08:read-through-handle', z3.And(got[0] == ctx.view.pick(ctx.view.K, h), got[1] == ctx.view.pick(ctx.view.V, h)[0])))
        else:
            post.append(('C08:read-through-handle', got == ctx.view.pick(ctx.view.V, h)[0]))
        return post


class MSValueByIndexMut(Op):
    name = 'value_by_index_mut'
    needs_handle = True

    def setup(s, ctx):
        h = sym(ctx, 'h', 32)
        sym(ctx, 'nv', VW)
        return _entry(ctx.P, ctx.kind + '::tree', 'value_by_index_mut', 2), [TREE, h], [handle_in_tree(ctx, h)]

    def post(s, ctx, st):
        # the caller writes a new value through the returned &mut V (for the set: same key, new payload)
        h, nv = ctx.sym['h'], ctx.sym['nv']
        hk = ctx.view.pick(ctx.view.K, h)
        r = st.result
        if ctx.kind == 'set':
            ctx.eng.write(st, Ref(r.root, r.path + (('f', 1),)), nv)
        else:
            ctx.eng.write(st, r, nv)
        post, v, it, _ = standard_post(ctx, st)
        post.append(('C08:write-through-handle', alpha_eq(v, it, ctx.view, ctx.it, 'p', lambda x, f, w: (f, merge(x == hk, [nv], w)))))
        return post


class MSClear(Op):
    name = 'clear'

    def setup(s, ctx):
        return _entry(ctx.P, ctx.kind + '::tree', 'clear', 1), [TREE], []

    def post(s, ctx, st):
        post, v, it, _ = standard_post(ctx, st)
        post.append(('C12:clear-empties', z3.And(v.root == EMPTY32, v.unused.len == v.n - 1)))
        post.append(('C11:clear-frees-all', v.unused.len == v.n - 1))
        return post


class SetNeighbour(Op):
    mutates = False
    needs_handle = True

    def __init__(s, after):
        s.after = after
        s.name = 'index_after' if after else 'index_before'

    def setup(s, ctx):
        h = sym(ctx, 'h', 32)
        return _entry(ctx.P, 'set::tree', s.name, 2), [TREE, h], [handle_in_tree(ctx, h)]

    def post(s, ctx, st):
        post, v, it, _ = standard_post(ctx, st)
        h = ctx.sym['h']
        hk = ctx.view.pick(ctx.view.K, h)
        view = ctx.view
        # reference neighbour: in-tree slot with the least key greater than key[h] (resp. greatest smaller)
        slot = EMPTY32
        key = bv(0, KW)
        have = FALSE
        for i in range(1, view.n):
            c = b_and(ctx.it[i], z3.UGT(view.K[i], hk) if s.after else z3.ULT(view.K[i], hk))
            better = b_and(c, b_or(b_not(have), z3.ULT(view.K[i], key) if s.after else z3.UGT(view.K[i], key)))
            slot = ite(better, bv(i, 32), slot)
            key = ite(better, view.K[i], key)
            have = b_or(have, c)
        post.append(('C09:neighbour', st.result == slot))
        return post


# ---- key tree ------------------------------------------------------------------------------------
def key_pre(ctx, t):
    """contract state for the expiring tree at operation time t: live entries have distinct keys;
    at most ctx.max_expired physically present entries are already expired"""
    view = ctx.view
    f = []
    for i in range(1, view.n):
        for j in range(i + 1, view.n):
            f.append(z3.Implies(z3.And(ctx.it[i], ctx.it[j], z3.UGT(view.X[i], t), z3.UGT(view.X[j], t)), view.K[i] != view.K[j]))
    if ctx.max_expired is not None:
        c = bv(0, 8)
        for i in range(1, view.n):
            c = c + z3.If(z3.And(ctx.it[i], z3.ULE(view.X[i], t)), bv(1, 8), bv(0, 8))
        f.append(z3.ULE(c, ctx.max_expired))
    return f


def key_frame(ctx, v, it, t, new=None):
    """for fresh t' >= t and key x: live_lookup(post, x, t') == live_lookup(pre, x, t') (+ the new entry)"""
    t2 = z3.BitVec('t2_frame', EW)
    if new is None:
        patch = None
    else:
        nk, nx, nv = new
        patch = lambda x, f, w: (z3.Or(z3.And(x == nk, z3.UGT(nx, t2)), f), merge(z3.And(x == nk, z3.UGT(nx, t2)), [nv], w))
    return z3.Implies(z3.UGE(t2, t), alpha_eq(v, it, ctx.view, ctx.it, 'fr', patch, t=t2))


def key_common_post(ctx, st, t, new=None):
    post, v, it, extra = standard_post(ctx, st)
    post.append(('C01:frame-only-expired-vanish', key_frame(ctx, v, it, t, new)))
    live_any = z3.Or([z3.And(it[i], z3.UGT(v.X[i], t)) for i in range(1, v.n)]) if v.n > 1 else FALSE
    post.append(('C01:live-implies-not-empty', z3.Implies(live_any, v.root != EMPTY32)))
    return post, v, it


class KInsert(Op):
    name = 'insert'

    def setup(s, ctx):
        k = sym(ctx, 'k', KW); x = sym(ctx, 'x', EW); v = sym(ctx, 'v', VW); t = sym(ctx, 't', EW)
        found, _ = lookup(ctx.view, ctx.it, k, t)
        pre = key_pre(ctx, t) + [z3.UGE(x, t), z3.Not(found)]
        if not ctx.allow_growth:
            pre.append(ctx.view.unused.len != 0)
        else:
            pre.append(ctx.view.unused.len == 0)
        ctx.probe_key = [k, x]
        return _entry(ctx.P, 'key::tree', 'insert', 4), [TREE, [k, x], v, t], pre

    def post(s, ctx, st):
        y = ctx.sym
        post, v, it = key_common_post(ctx, st, y['t'], (y['k'], y['x'], y['v']))
        return post


class KQuery(Op):
    def __init__(s, name):
        s.name = name

    def setup(s, ctx):
        t = sym(ctx, 't', EW); d = sym(ctx, 'd', VW)
        pre = key_pre(ctx, t)
        if s.name == 'first_less_or_equal_by':
            p9 = sym(ctx, 'p9', KW + 1)
            ctx.probe_key = None
            return _entry(ctx.P, 'key::tree', s.name, 4), [TREE, t, d, ['closure', p9]], pre
        k = sym(ctx, 'k', KW); x = sym(ctx, 'x', EW)
        ctx.probe_key = [k, x]
        return _entry(ctx.P, 'key::tree', s.name, 4), [TREE, t, d, [k, x]], pre

    def post(s, ctx, st):
        y = ctx.sym
        post, v, it = key_common_post(ctx, st, y['t'])
        if s.name == 'first_less':
            bound = lambda k: z3.ULT(k, y['k'])
        elif s.name == 'first_less_or_equal':
            bound = lambda k: z3.ULE(k, y['k'])
        else:
            bound = lambda k: z3.ULE(k2(k), y['p9'])
        ex, slot, key, val = pred_ref(ctx.view, ctx.it, bound, t=y['t'])
        post.append(('C01:predecessor-result', st.result == ite(ex, val[0], y['d'])))
        return post


class KGet(Op):
    name = 'get_value'

    def setup(s, ctx):
        t = sym(ctx, 't', EW); k = sym(ctx, 'k', KW); x = sym(ctx, 'x', EW)
        ctx.probe_key = [k, x]
        return _entry(ctx.P, 'key::tree', 'get_value', 3), [TREE, t, [k, x]], key_pre(ctx, t)

    def post(s, ctx, st):
        y = ctx.sym
        post, v, it = key_common_post(ctx, st, y['t'])
        found, val = lookup(ctx.view, ctx.it, y['k'], y['t'])
        r = st.result
        f = [(r[1] == 1) == found]
        if r[2]:
            f.append(z3.Implies(found, r[2][0] == val[0]))
        post.append(('C06:exact-lookup', z3.And(f)))
        return post


class KClear(MSClear):
    pass


class KIsEmpty(Op):
    name = 'is_empty'
    mutates = False

    def setup(s, ctx):
        return _entry(ctx.P, 'key::tree', 'is_empty', 1), [TREE], []

    def post(s, ctx, st):
        post, v, it, _ = standard_post(ctx, st)
        post.append(('C01:is_empty', st.result == (count_in(ctx.it) == 0)))
        return post


class KExport(Op):
    name = 'into_ordered_vec'

    def setup(s, ctx):
        t = sym(ctx, 't', EW)
        ctx.by_value = True
        if [f for f in ctx.P.find('key::array', 'is_part_of_the_tree') if f.nargs == 2]:
            ctx.inst.summaries = {'is_part_of_the_tree': summary_in_tree}
        return _entry(ctx.P, 'key::array', 'into_ordered_vec', 2, 'KeyExpTree'), [ctx.tree, t], key_pre(ctx, t)

    def post(s, ctx, st):
        y = ctx.sym
        t = y['t']
        view = ctx.view
        r = st.result
        if not isinstance(r, VecVal):
            return [('C07:export', FALSE)]
        live = [FALSE] + [b_and(ctx.it[i], z3.UGT(view.X[i], t)) for i in range(1, view.n)]
        cnt = bv(0, 64)
        for i in range(1, view.n):
            cnt = cnt + z3.If(live[i], bv(1, 64), bv(0, 64))
        f = [r.len == cnt]
        for i in range(1, view.n):
            rank = bv(0, 64)
            for j in range(1, view.n):
                if j != i:
                    rank = rank + z3.If(z3.And(live[j], z3.ULT(view.K[j], view.K[i])), bv(1, 64), bv(0, 64))
            got = None
            for q in range(len(r.cells) - 1, -1, -1):
                got = r.cells[q] if got is None else ite(rank == q, r.cells[q], got)
            if got is None:
                f.append(z3.Not(live[i]))
            else:
                f.append(z3.Implies(live[i], z3.And(z3.ULT(rank, r.len), got == view.V[i][0])))
        post = [('C07:export-live-in-order', z3.And(f))]
        phys = count_in(ctx.it)
        for elem, cap, where in st.aux.get('caps', []):
            if elem == 'V':
                post.append(('C19:export-capacity-linear', z3.ULE(cap, 2 * phys + 8)))
        post.append(('C19:returned-capacity-linear', z3.ULE(r.cap, 2 * phys + 8)))
        return post


class MissingEntry(Exception):
    pass


class KInTreeTest(Op):
    """key::array::is_part_of_the_tree(slot) == "slot is in the tree" for every slot 1..len-1 (used as a summary by the export step)"""
    name = 'is_part_of_the_tree'
    mutates = False

    def setup(s, ctx):
        i = sym(ctx, 'i', 32)
        if not [f for f in ctx.P.find('key::array', 'is_part_of_the_tree') if f.nargs == 2]:
            raise MissingEntry('key::array::is_part_of_the_tree')      # helper refactored away: nothing to summarise
        return _entry(ctx.P, 'key::array', 'is_part_of_the_tree', 2), [TREE, i], [z3.UGE(i, 1), z3.ULT(i, ctx.view.n)]

    def post(s, ctx, st):
        post, v, it, _ = standard_post(ctx, st)
        post.append(('C07:in-tree-test-exact', st.result == ctx.view.pick(ctx.it, ctx.sym['i'])))
        return post


def summary_in_tree(eng, st, fr, args):
    """summary of is_part_of_the_tree, justified by the KInTreeTest step: closed-form membership in the current state"""
    from .trees import closed_in_tree
    tree = eng.read(st, args[0])
    v = View(eng.inst, tree)
    it, _, _ = closed_in_tree(v)
    return v.pick([x if isinstance(x, z3.ExprRef) else z3.BoolVal(bool(z3.is_true(x))) for x in it], args[1])


OPS = {
    'map': {o.name: o for o in [MSInsert(), MSDelete(), MSDeleteByIndex(), MSGet(), MSIsEmpty(), MSFirstLess(), MSFirstLessBy(),
                                MSValueByIndex(), MSValueByIndexMut(), MSClear()]},
    'set': {o.name: o for o in [MSInsert(), MSDelete(), MSDeleteByIndex(), MSGet(), MSIsEmpty(), MSFirstLess(), MSFirstLessBy(),
                                MSValueByIndex(), MSValueByIndexMut(), MSClear(), SetNeighbour(True), SetNeighbour(False)]},
    'key': {o.name: o for o in [KInsert(), KQuery('first_less'), KQuery('first_less_or_equal'), KQuery('first_less_or_equal_by'),
                                KGet(), KClear(), KIsEmpty(), KExport(), KInTreeTest()]},
}


# ------------------------------------------------------------------------------------------------ runner
TAG_FILTER = None      # list of tag prefixes whose post-conditions are queried (None = all); safety obligations always are


def wanted(tag):
    return TAG_FILTER is None or any(tag.startswith(t) for t in TAG_FILTER)


def final_query(events, post, timeout_ms):
    """returns (verdict, model, failing item) ; verdict in unsat/sat/unknown"""
    pref = []
    disj = []
    n_obl = 0
    for e in events:
        if e[0] == 'assume':
            pref.append(e[1])
        elif e[2] == 'post':
            if wanted(e[3]):
                n_obl += 1
                disj.append((z3.And(pref + [z3.Not(e[1])]), e))
        else:
            n_obl += 1
            if z3.is_false(e[1]):
                disj.append((z3.And(pref) if pref else TRUE, e))
            else:
                disj.append((z3.And(pref + [z3.Not(e[1])]), e))
            pref.append(e[1])
    for tag, f in post:
        if z3.is_true(f) or not wanted(tag):
            continue
        disj.append((z3.And(pref + [z3.Not(f)]), ('post', f, tag)))
    if not disj:
        return 'unsat', None, None, 0
    s = z3.Tactic('qfbv').solver()
    s.set('timeout', timeout_ms)
    s.add(z3.Or([d for d, _ in disj]))
    r = s.check()
    if r == z3.unsat:
        return 'unsat', None, None, len(disj)
    if r == z3.unknown:
        return 'unknown', None, None, len(disj)
    m = s.model()
    for d, e in disj:
        if z3.is_true(m.eval(d, model_completion=True)):
            return 'sat', m, e, len(disj)
    return 'sat', m, ('post', None, 'unattributed'), len(disj)


def run_step(P, kind, opname, N, cube=None, max_expired=None, allow_growth=False, limits=None, timeout_ms=600000,
             first_only=True, check_callbacks=True, seed=0):
    """explore one operation from every arena of N slots satisfying the invariant (restricted to `cube`)."""
    t0 = time.time()
    inst = INSTANCES[kind]()
    op = OPS[kind][opname]
    ctx = Ctx()
    ctx.P, ctx.inst, ctx.kind, ctx.N = P, inst, kind, N
    ctx.sym = {}
    ctx.heap_extra = {}
    ctx.allow_growth = allow_growth
    ctx.max_expired = max_expired
    ctx.by_value = False
    ctx.probe_key = None
    ucap = None
    if allow_growth:
        ucap = bv(N - 1, 64)       # concrete capacity so that the growth amount is concrete
    tree = fresh_arena(inst, N, 'pre', ucap=ucap, ulen=bv(0, 64) if allow_growth else None)
    ctx.tree = tree
    ctx.view = View(inst, tree)
    f, it, w = inv_witness(ctx.view, 'pre')
    ctx.it = it
    try:
        fn, args, pre = op.setup(ctx)
    except MissingEntry as ex:
        return {'kind': kind, 'op': opname, 'N': N, 'paths': 0, 'obligations': 0, 'queries': 0, 'violations': [], 'unknown': 0, 'statuses': {},
                'by_kind': {}, 'post_tags': {}, 'callbacks': 0, 'cb_snapshots_checked': 0, 'samples': [], 'vacuous': True,
                'skipped_missing_entry': str(ex), 'wall_s': 0.0, 'stats': {}, 'fns': [], 'query_s': 0.0}
    solver = z3.SolverFor('QF_BV')
    solver.set('random_seed', seed)
    assumptions = f + pre + (cube(ctx) if cube else [])
    solver.add(assumptions)
    res = {'kind': kind, 'op': opname, 'N': N, 'paths': 0, 'obligations': 0, 'queries': 0, 'violations': [], 'unknown': 0,
           'statuses': {}, 'by_kind': {}, 'post_tags': {}, 'callbacks': 0, 'cb_snapshots_checked': 0, 'samples': []}
    if solver.check() != z3.sat:
        res['vacuous'] = True
        res['wall_s'] = time.time() - t0
        return res
    res['vacuous'] = False
    lim = limits or Limits(loop=2 * N + 4, rec=3 * N + 8)
    st = State()
    if not ctx.by_value:
        st.heap['tree'] = tree
    st.heap.update(ctx.heap_extra)
    st.event(('assume', z3.And(assumptions)))
    st.aux['cbs'] = []
    st.aux['caps'] = []

    def cb_hook(eng, st2, cbkind, cbargs):
        st2.aux['cbs'] = st2.aux['cbs'] + [(cbkind, cbargs, st2.heap.get('tree'))]
    inst.cb_hook = cb_hook

    def on_cap(eng, st2, elem, n, where):
        st2.aux['caps'] = st2.aux['caps'] + [(elem, n, where)]
    inst.on_with_capacity = on_cap
    qtime = [0.0]

    def on_path(eng, st2, status):
        res['paths'] += 1
        res['statuses'][status] = res['statuses'].get(status, 0) + 1
        events = st2.event_list()
        post = []
        if status == 'ok':
            ctx.eng = eng
            post = op.post(ctx, st2)
            # callbacks: C20 (only live keys reach comparison code) and C18 (state at each callback is valid and un-torn)
            cbs = st2.aux['cbs']
            res['callbacks'] += len(cbs)
            if kind == 'key' and 't' in ctx.sym:
                t = ctx.sym['t']
                c20 = []
                for cbk, cba, snap in cbs:
                    if cbk in ('cmp', 'lt', 'fcall'):
                        for a in cba:
                            okk = z3.UGT(a[1], t)
                            if ctx.probe_key is not None:
                                okk = z3.Or(okk, z3.And(a[0] == ctx.probe_key[0], a[1] == ctx.probe_key[1]))
                            c20.append(okk)
                if c20:
                    post.append(('C20:only-live-keys-compared', z3.And(c20)))
            if check_callbacks and not ctx.by_value:
                seen = {id(ctx.tree)}
                final_tree = st2.heap.get('tree')
                fv = fit = None
                for cbk, cba, snap in cbs:
                    if snap is None or id(snap) in seen or snap is final_tree:
                        continue
                    seen.add(id(snap))
                    res['cb_snapshots_checked'] += 1
                    sv = View(inst, snap)
                    G, sit, _ = inv_closed(sv)
                    post.append(('C18:valid-at-callback', conj(G)))
                    tt = ctx.sym.get('t') if kind == 'key' else None
                    same_pre = alpha_eq(sv, sit, ctx.view, ctx.it, f'cb{len(seen)}a', t=tt)
                    if fv is None:
                        fv = View(inst, final_tree)
                        _, fit, _ = inv_closed(fv)
                    same_post = alpha_eq(sv, sit, fv, fit, f'cb{len(seen)}b', t=tt)
                    # "before or after" must hold for every key at once: quantify the key inside each alternative
                    post.append(('C18:untorn-at-callback', z3.Or(same_pre, same_post)))
        for tag, _ in post:
            res['post_tags'][tag] = res['post_tags'].get(tag, 0) + 1
        for e in events:
            if e[0] == 'oblig':
                res['by_kind'][e[2]] = res['by_kind'].get(e[2], 0) + 1
        q0 = time.time()
        verdict, m, item, nd = final_query(events, post, timeout_ms)
        qtime[0] += time.time() - q0
        res['queries'] += 1
        res['obligations'] += nd
        if len(res['samples']) < 2:
            res['samples'].append({'status': status, 'branch_conditions': sum(1 for e in events if e[0] == 'assume'),
                                   'obligations': nd, 'last_branch': str(z3.simplify(events[-1][1]))[:200] if events and events[-1][0] == 'assume' else ''})
        if verdict == 'unknown':
            res['unknown'] += 1
        elif verdict == 'sat':
            if item[0] == 'oblig':
                tag = 'C10:' + item[2]
                desc = item[3]
            else:
                tag = item[2]
                desc = item[2]
            viol = {'tag': tag, 'desc': desc, 'status': status, 'args': op.describe_args(ctx, m),
                    'pre': dump_tree(m, inst, ctx.tree)}
            if not ctx.by_value and st2.heap.get('tree') is not None:
                try:
                    viol['post'] = dump_tree(m, inst, st2.heap['tree'])
                except Exception as ex:      # noqa
                    viol['post'] = repr(ex)
            if status == 'ok' and st2.result is not None:
                viol['result'] = describe_value(m, st2.result)
            if len(res['violations']) < 8:
                res['violations'].append(viol)
            res['n_violations'] = res.get('n_violations', 0) + 1

    eng = Engine(P, inst, lim, solver, on_path, {})
    ctx.eng = eng
    try:
        eng.push_call(st, fn, args, None, None, None)
        eng.explore(st)
    except Unsupported as ex:
        res['unsupported'] = str(ex)
    res['stats'] = eng.stats
    res['fns'] = sorted(eng.fns_seen)
    res['query_s'] = qtime[0]
    res['wall_s'] = time.time() - t0
    return res


def describe_value(m, v):
    if isinstance(v, z3.ExprRef):
        return model_int(m, v)
    if isinstance(v, VecVal):
        n = model_int(m, v.len)
        return {'len': n, 'cap': model_int(m, v.cap), 'items': [describe_value(m, c) for c in v.cells[:n]]}
    if isinstance(v, list):
        return [describe_value(m, x) for x in v]
    return repr(v)
