"""Code-free lemma queries about the representation invariant (run for every arena size a check uses):
  L1  InvW(S, w)  =>  InvC(S)                       (witness form is not weaker than the closed form checked on post-states)
  L2  InvC(S)     =>  InvW(S, w_explicit(S))        (closed form implies the witness form: the induction composes)
  L3  InvW(S, w)  =>  height(S) <= 2*log2(n+1) + 1  (logarithmic height, C02)
  L4  InvW(S, w)  =>  |left spine blacks| b gives n >= 2^b - 1 (used by the C19 argument)
"""
import math
import time
import z3

from .engine import bv
from .trees import INSTANCES, View, fresh_arena, inv_witness, inv_closed, conj, count_in, explicit_witness, height_closed


def check(f, timeout_ms=900000):
    s = z3.Tactic('qfbv').solver()
    s.set('timeout', timeout_ms)
    s.add(f)
    t0 = time.time()
    r = s.check()
    m = s.model() if r == z3.sat else None
    return str(r), round(time.time() - t0, 2), m


def run_lemmas(kind, N, which=('L1', 'L2', 'L3')):
    inst = INSTANCES[kind]()
    tree = fresh_arena(inst, N, 'lem')
    view = View(inst, tree)
    fw, it, w = inv_witness(view, 'lem')
    G, in_tree, extra = inv_closed(view)
    out = []
    if 'L1' in which:
        for name, grp in G.items():
            r, t, m = check(z3.And(z3.And(fw), z3.Not(z3.And(grp))))
            out.append({'lemma': f'L1[{name}] InvW => InvC.{name}', 'kind': kind, 'N': N, 'result': r, 'solver_s': t})
        # the ghost in-tree flags coincide with the closed-form membership
        r, t, m = check(z3.And(z3.And(fw), z3.Or([it[i] != in_tree[i] for i in range(1, N)])))
        out.append({'lemma': 'L1[membership] ghost flags == closed-form in_tree', 'kind': kind, 'N': N, 'result': r, 'solver_s': t})
    if 'L2' in which:
        wit = explicit_witness(view, in_tree, extra)
        fw2, _, _ = inv_witness(view, 'lem2', wit)
        for j, c in enumerate(fw2):
            pass
        r, t, m = check(z3.And(conj(G), z3.Not(z3.And(fw2))))
        out.append({'lemma': 'L2 InvC => InvW[explicit witness]', 'kind': kind, 'N': N, 'result': r, 'solver_s': t})
    if 'L3' in which:
        h = height_closed(view, in_tree, extra)
        cnt = count_in(it)
        cases = []
        for c in range(0, N):
            bound = int(math.floor(2 * math.log2(c + 1) + 1)) if c > 0 else 0
            cases.append(z3.Implies(cnt == c, z3.ULE(h, bound)))
        r, t, m = check(z3.And(z3.And(fw), z3.Not(z3.And(cases))))
        out.append({'lemma': 'L3 InvW => height <= 2*log2(n+1)+1', 'kind': kind, 'N': N, 'result': r, 'solver_s': t})
    return out


def lemma_job(job):
    try:
        return run_lemmas(job['kind'], job['N'], job.get('which', ('L1', 'L2', 'L3')))
    except Exception as ex:      # noqa
        import traceback
        return [{'lemma': 'error', 'kind': job['kind'], 'N': job['N'], 'result': 'error: ' + repr(ex) + traceback.format_exc()[-600:], 'solver_s': 0}]
