"""Tree instantiations (map / set / key), symbolic arenas, representation invariant (witness + closed form)
and abstraction functions used by the step and history harnesses."""
import re
import z3

from .engine import (Unsupported, Ref, VecVal, UNIT, Opaque, bv, b_and, b_or, b_not, b_eq, b_ult, b_ule, ite, merge,
                     zext, TRUE, FALSE, EMPTY32)
from .instance import BaseInstance, ordering

KW = 8      # key width
VW = 8      # value token width
EW = 8      # expiration width


def k2(k):
    """2*k as 9-bit (half-integer probe scale)"""
    return z3.Concat(k, z3.BitVecVal(0, 1)) if not z3.is_bv_value(k) else bv(k.as_long() * 2, KW + 1)


class MapInst(BaseInstance):
    module = 'map'
    tree_type = 'MapTree'
    kind = 'map'

    def user_intrinsic(s, eng, st, fr, stmt, callee, args):
        R = lambda v: eng.ret_value(st, fr, stmt, v)
        c = callee
        if c == '<K as Ord>::cmp':
            a = eng.read(st, args[0]); b = eng.read(st, args[1])
            s.callback(eng, st, 'cmp', [a, b])
            return R(ordering(b_ult(a, b), b_eq(a, b)))
        if c == '<K as PartialOrd>::lt':
            a = eng.read(st, args[0]); b = eng.read(st, args[1])
            s.callback(eng, st, 'lt', [a, b])
            return R(b_ult(a, b))
        if c == '<F as Fn<(K,)>>::call':
            f = eng.read(st, args[0]) if isinstance(args[0], Ref) else args[0]
            k = args[1][0]
            s.callback(eng, st, 'fcall', [k])
            return R(ordering(b_ult(k2(k), f[1]), b_eq(k2(k), f[1])))
        if c in ('<V as Clone>::clone', '<K as Clone>::clone'):
            v = eng.read(st, args[0])
            s.callback(eng, st, 'clone', [v])
            return R(v)
        if c == '<V as Default>::default':
            return R(bv(0, VW))
        if c == '<K as Default>::default':
            return R(bv(0, KW))
        return NotImplemented

    # arena layout
    def entity(s, k, x, v):
        return [k, v]

    def fields(s, cell):
        """-> parent, left, right, color, key, exp(None), value-leaves"""
        return cell[0], cell[1], cell[2], cell[3], cell[4][0], None, [cell[4][1]]

    def default_node(s):
        return [bv(0, 32), bv(0, 32), bv(0, 32), bv(0, 8), [bv(0, KW), bv(0, VW)]]

    def tree_value(s, buffer, unused, root):
        return [[buffer, unused], root]

    def parts(s, tree):
        return tree[0][0], tree[0][1], tree[1]


class SetInst(BaseInstance):
    module = 'set'
    tree_type = 'SetTree'
    kind = 'set'

    def user_intrinsic(s, eng, st, fr, stmt, callee, args):
        R = lambda v: eng.ret_value(st, fr, stmt, v)
        c = callee
        if c == '<V as KeyValue<K>>::key':
            v = eng.read(st, args[0])
            s.callback(eng, st, 'key', [v])
            return R(Ref(args[0].root, args[0].path + (('f', 0),)))
        if c == '<K as Ord>::cmp':
            a = eng.read(st, args[0]); b = eng.read(st, args[1])
            s.callback(eng, st, 'cmp', [a, b])
            return R(ordering(b_ult(a, b), b_eq(a, b)))
        if c == '<&K as PartialOrd>::lt':
            a = eng.read(st, eng.read(st, args[0])); b = eng.read(st, eng.read(st, args[1]))
            s.callback(eng, st, 'lt', [a, b])
            return R(b_ult(a, b))
        if c == '<K as PartialOrd>::lt':
            a = eng.read(st, args[0]); b = eng.read(st, args[1])
            s.callback(eng, st, 'lt', [a, b])
            return R(b_ult(a, b))
        if c == '<F as Fn<(&K,)>>::call':
            f = eng.read(st, args[0]) if isinstance(args[0], Ref) else args[0]
            k = eng.read(st, args[1][0])
            s.callback(eng, st, 'fcall', [k])
            return R(ordering(b_ult(k2(k), f[1]), b_eq(k2(k), f[1])))
        if c == '<V as Clone>::clone':
            v = eng.read(st, args[0])
            s.callback(eng, st, 'clone', [v])
            return R(v)
        if c == '<V as Default>::default':
            return R([bv(0, KW), bv(0, VW)])
        return NotImplemented

    def entity(s, k, x, v):
        return [k, v]

    def fields(s, cell):
        return cell[0], cell[1], cell[2], cell[3], cell[4][0], None, [cell[4][1]]

    def default_node(s):
        return [bv(0, 32), bv(0, 32), bv(0, 32), bv(0, 8), [bv(0, KW), bv(0, VW)]]

    def tree_value(s, buffer, unused, root):
        return [[buffer, unused], root, []]

    def parts(s, tree):
        return tree[0][0], tree[0][1], tree[1]


class KeyInst(BaseInstance):
    module = 'key'
    tree_type = 'KeyExpTree'
    kind = 'key'

    def user_intrinsic(s, eng, st, fr, stmt, callee, args):
        R = lambda v: eng.ret_value(st, fr, stmt, v)
        c = callee
        if c == '<K as Ord>::cmp':
            a = eng.read(st, args[0]); b = eng.read(st, args[1])
            s.callback(eng, st, 'cmp', [a, b])
            return R(ordering(b_ult(a[0], b[0]), b_eq(a[0], b[0])))
        if c == '<K as PartialOrd>::lt':
            a = eng.read(st, args[0]); b = eng.read(st, args[1])
            s.callback(eng, st, 'lt', [a, b])
            return R(b_ult(a[0], b[0]))
        if c == '<K as ExpiredKey<E>>::expiration':
            a = eng.read(st, args[0])
            s.callback(eng, st, 'expiration', [a])
            return R(a[1])
        if c == '<E as Expiration>::max_expiration':
            return R(bv((1 << EW) - 1, EW))                      # E is the unsigned EW-bit stand-in: E::MAX
        m = re.match(r'^<E as Ord>::(min|max)$', c)
        if m:
            a, b = args[0], args[1]
            pick_b = z3.ULT(b, a) if m.group(1) == 'min' else z3.UGE(b, a)   # std: min -> b if b < a, max -> b if b >= a
            r = z3.If(pick_b, b, a)
            return R(z3.simplify(r) if z3.is_bv_value(a) and z3.is_bv_value(b) else r)
        m = re.match(r'^<E as PartialOrd>::(gt|ge|lt|le)$', c)
        if m:
            a = eng.read(st, args[0]); b = eng.read(st, args[1])
            op = {'gt': z3.UGT, 'ge': z3.UGE, 'lt': z3.ULT, 'le': z3.ULE}[m.group(1)]
            r = op(a, b)
            if z3.is_bv_value(a) and z3.is_bv_value(b):
                r = z3.simplify(r)
            return R(r)
        if c == '<F as Fn<(K,)>>::call':
            f = eng.read(st, args[0]) if isinstance(args[0], Ref) else args[0]
            k = args[1][0]
            s.callback(eng, st, 'fcall', [k])
            return R(ordering(b_ult(k2(k[0]), f[1]), b_eq(k2(k[0]), f[1])))
        if c.startswith('zeroed::<key::entity::Entity<'):
            return R([[bv(0, KW), bv(0, EW)], bv(0, VW), []])
        return NotImplemented

    def entity(s, k, x, v):
        return [[k, x], v, []]

    def fields(s, cell):
        return cell[0], cell[1], cell[2], cell[3], cell[4][0][0], cell[4][0][1], [cell[4][1]]

    def default_node(s):
        return [bv(0, 32), bv(0, 32), bv(0, 32), bv(0, 8), [[bv(0, KW), bv(0, EW)], bv(0, VW), []]]

    def tree_value(s, buffer, unused, root):
        return [[buffer, unused], root, []]

    def parts(s, tree):
        return tree[0][0], tree[0][1], tree[1]


def _key_relops(inst, eng, st, fr, stmt, c, args, keyof):
    """<K as PartialEq>::{eq,ne}, <K as PartialOrd>::{lt,le,gt,ge} (and the &K forms) for the instantiation's key order"""
    m = re.match(r'^<(&*)K as (PartialEq|PartialOrd)(?:<.*>)?>::(eq|ne|lt|le|gt|ge)$', c)
    if not m:
        return NotImplemented
    a, b = args
    for _ in range(len(m.group(1)) + 1):
        a = eng.read(st, a)
        b = eng.read(st, b)
    inst.callback(eng, st, 'cmp', [a, b])
    ka, kb = keyof(a), keyof(b)
    op = m.group(3)
    r = {'eq': lambda: b_eq(ka, kb), 'ne': lambda: b_not(b_eq(ka, kb)), 'lt': lambda: b_ult(ka, kb), 'le': lambda: b_ule(ka, kb),
         'gt': lambda: b_ult(kb, ka), 'ge': lambda: b_ule(kb, ka)}[op]()
    return eng.ret_value(st, fr, stmt, r)


for _cls, _keyof in ((MapInst, lambda k: k), (SetInst, lambda k: k), (KeyInst, lambda k: k[0])):
    def _wrap(orig, keyof):
        def user_intrinsic(s, eng, st, fr, stmt, callee, args):
            r = orig(s, eng, st, fr, stmt, callee, args)
            if r is NotImplemented:
                r = _key_relops(s, eng, st, fr, stmt, callee, args, keyof)
            return r
        return user_intrinsic
    _cls.user_intrinsic = _wrap(_cls.user_intrinsic, _keyof)

INSTANCES = {'map': MapInst, 'set': SetInst, 'key': KeyInst}


# ---------------------------------------------------------------------------------------- views
class View:
    """Per-slot field lists of a tree value (scalarised arena)."""

    def __init__(s, inst, tree):
        buffer, unused, root = inst.parts(tree)
        s.inst = inst
        s.buffer, s.unused, s.root = buffer, unused, root
        s.n = len(buffer.cells)
        s.P, s.L, s.R, s.C, s.K, s.X, s.V = [], [], [], [], [], [], []
        for cell in buffer.cells:
            p, l, r, c, k, x, v = inst.fields(cell)
            s.P.append(p); s.L.append(l); s.R.append(r); s.C.append(c); s.K.append(k); s.X.append(x); s.V.append(v)
        s.strict = inst.kind != 'key'

    def pick(s, arr, idx):
        """arr[idx] for a BV32 idx (value of arr[0] when idx is out of range: callers guard with valid())"""
        if z3.is_bv_value(idx):
            i = idx.as_long()
            return arr[i] if i < s.n else arr[0]
        r = arr[0]
        for i in range(1, s.n):
            r = merge(idx == i, arr[i], r)
        return r

    def valid(s, c):
        if z3.is_bv_value(c):
            return TRUE if 1 <= c.as_long() < s.n else FALSE
        return z3.And(z3.UGE(c, 1), z3.ULT(c, s.n))


def fresh_arena(inst, n, tag, ucells=None, ulen=None, ucap=None):
    """symbolic arena with n buffer cells (slot 0 = sentinel, arbitrary content) and a symbolic free list"""
    cells = []
    for i in range(n):
        p = z3.BitVec(f'P{i}_{tag}', 32); l = z3.BitVec(f'L{i}_{tag}', 32); r = z3.BitVec(f'R{i}_{tag}', 32)
        c = z3.BitVec(f'C{i}_{tag}', 8)
        k = z3.BitVec(f'K{i}_{tag}', KW); x = z3.BitVec(f'X{i}_{tag}', EW); v = z3.BitVec(f'V{i}_{tag}', VW)
        cells.append([p, l, r, c, inst.entity(k, x, v)])
    ucells = ucells if ucells is not None else n + 1
    u = [z3.BitVec(f'U{j}_{tag}', 32) for j in range(ucells)]
    ulen = ulen if ulen is not None else z3.BitVec(f'ulen_{tag}', 64)
    ucap = ucap if ucap is not None else z3.BitVec(f'ucap_{tag}', 64)
    root = z3.BitVec(f'root_{tag}', 32)
    buffer = VecVal(bv(n, 64), cells, z3.BitVec(f'bcap_{tag}', 64))
    unused = VecVal(ulen, u, ucap)
    tree = inst.tree_value(buffer, unused, root)
    return tree


def colour_domain(view):
    return [z3.ULE(c, 1) for c in view.C]


def capacities(view):
    """Vec bookkeeping: len <= capacity, capacities far below the address-space limit (doubling cannot overflow)"""
    b, u = view.buffer, view.unused
    # free-list capacity <= 2 * buffer length: it only ever doubles when it is full, and it holds at most len-1 slots;
    # the arena grows by that capacity, so one growth step at most triples the buffer (C11's storage bound)
    return [z3.ULE(b.len, b.cap), z3.ULE(b.cap, bv(1 << 40, 64)), z3.ULE(u.len, u.cap), z3.ULE(u.cap, b.len + b.len)]


def link_typed(view):
    """every link field of every slot - in the tree, free, or the sentinel - is the empty marker or a slot number below
    the buffer length (links are only ever written from slot numbers, NIL and EMPTY_REF; free slots keep stale ones)"""
    out = []
    for arr in (view.P, view.L, view.R):
        for x in arr:
            out.append(z3.Or(x == EMPTY32, z3.ULT(x, view.n)))
    return out


def stale_edge(view, in_tree, x, xfree):
    """free slot x has a stale parent link to a *free* slot p that still links back to x (possible after `clear`, or when a
    node was freed while its stale child link pointed at a node that was freed later)"""
    p = view.P[x] if isinstance(x, int) else view.pick(view.P, x)
    xi = bv(x, 32) if isinstance(x, int) else x
    back = z3.Or(view.pick(view.L, p) == xi, view.pick(view.R, p) == xi)
    pfree = z3.And(view.valid(p), z3.Not(view.pick(in_tree, p)))
    return z3.And(xfree, pfree, back), p


def stale_acyclic_witness(view, in_tree, tag, rk=None):
    """the stale back-linked parent relation among free slots is acyclic (ghost rank strictly decreases along it):
    a stale child link always goes from an earlier-freed slot to a later-freed one"""
    rk = rk if rk is not None else [z3.BitVec(f'rk{i}_{tag}', 8) for i in range(view.n)]
    out = []
    for x in range(1, view.n):
        e, p = stale_edge(view, in_tree, x, z3.Not(in_tree[x]))
        out.append(z3.Implies(e, z3.ULT(view.pick(rk, p), rk[x])))
    return out


def stale_acyclic_closed(view, in_tree):
    """closed form: following stale back-linked parents from any free slot stops within n-1 steps"""
    out = []
    n = view.n
    for x in range(1, n):
        cur = bv(x, 32)
        alive = b_not(in_tree[x]) if not isinstance(in_tree[x], bool) else (TRUE if not in_tree[x] else FALSE)
        for k in range(n - 1):
            e, p = stale_edge(view, in_tree, cur, z3.And(view.valid(cur), z3.Not(view.pick(in_tree, cur))))
            alive = b_and(alive, e)
            cur = p
        out.append(z3.Not(alive))
    return out


def k10(k):
    return z3.ZeroExt(2, k) + 1


def inv_witness(view, tag, wit=None):
    """Representation invariant in witness form (ghost in-tree flag, depth, black height, key interval per slot).
    Returns (list of conjuncts, it[] flags).  `wit` supplies explicit witness terms instead of fresh ghost variables."""
    n = view.n
    P, L, R, C, K = view.P, view.L, view.R, view.C, view.K
    root = view.root
    if wit is None:
        it = [z3.Bool(f'it{i}_{tag}') for i in range(n)]
        dp = [z3.BitVec(f'dp{i}_{tag}', 8) for i in range(n)]
        bh = [z3.BitVec(f'bh{i}_{tag}', 8) for i in range(n)]
        lo = [z3.BitVec(f'lo{i}_{tag}', KW + 2) for i in range(n)]
        hi = [z3.BitVec(f'hi{i}_{tag}', KW + 2) for i in range(n)]
        rk = None
    else:
        it, dp, bh, lo, hi, rk = wit['it'], wit['dp'], wit['bh'], wit['lo'], wit['hi'], wit['rk']
    pick = view.pick
    valid = view.valid
    INF = (1 << KW) + 1
    f = [view.buffer.len == n, z3.Not(it[0]), z3.Or(root == EMPTY32, valid(root))]
    f += capacities(view)
    f += colour_domain(view)
    f += link_typed(view)
    cnt = bv(0, 64)
    for i in range(1, n):
        p, l, r, c, k = P[i], L[i], R[i], C[i], K[i]
        kk = k10(k)
        cnt = cnt + z3.If(it[i], bv(1, 64), bv(0, 64))
        if view.strict:
            g = [z3.ULT(lo[i], kk), z3.ULT(kk, hi[i])]
        else:
            g = [z3.ULE(lo[i], kk), z3.ULE(kk, hi[i])]
        g.append(z3.ULT(dp[i], n))
        isroot = root == i
        g.append(z3.If(isroot,
                       z3.And(p == EMPTY32, dp[i] == 0, lo[i] == 0, hi[i] == INF),
                       z3.And(valid(p), pick(it, p), dp[i] == pick(dp, p) + 1,
                              z3.Xor(pick(L, p) == i, pick(R, p) == i))))
        for ch, side in ((l, 'l'), (r, 'r')):
            okc = z3.And(valid(ch), pick(it, ch), pick(P, ch) == i,
                         z3.Not(z3.And(c == 0, pick(C, ch) == 0)),
                         (z3.And(pick(lo, ch) == lo[i], pick(hi, ch) == kk) if side == 'l'
                          else z3.And(pick(lo, ch) == kk, pick(hi, ch) == hi[i])))
            g.append(z3.Or(ch == EMPTY32, okc))
        bl = z3.If(l == EMPTY32, bv(0, 8), pick(bh, l))
        br = z3.If(r == EMPTY32, bv(0, 8), pick(bh, r))
        g.append(bl == br)
        g.append(bh[i] == bl + z3.If(c == 1, bv(1, 8), bv(0, 8)))
        g.append(z3.Or(l == EMPTY32, l != r))
        f.append(z3.Implies(it[i], z3.And(g)))
    f.append(z3.If(root == EMPTY32, cnt == 0, pick(it, root)))
    f += stale_acyclic_witness(view, it, tag, rk)
    u = view.unused
    f.append(u.len == bv(n - 1, 64) - cnt)
    f.append(z3.ULE(u.len, u.cap))
    for j in range(n - 1):
        uj = u.cells[j]
        f.append(z3.Implies(z3.ULT(bv(j, 64), u.len), z3.And(valid(uj), z3.Not(pick(it, uj)))))
        for j2 in range(j + 1, n - 1):
            f.append(z3.Implies(z3.ULT(bv(j2, 64), u.len), uj != u.cells[j2]))
    return f, it, {'dp': dp, 'bh': bh, 'lo': lo, 'hi': hi}


def closed_in_tree(view):
    """in_tree[i], ancestor chains ups[k][i], alive[k][i] computed from parent links with every link verified"""
    n = view.n
    P, L, R = view.P, view.L, view.R
    pick, valid = view.pick, view.valid
    root = view.root
    cur = [bv(i, 32) for i in range(n)]
    ups = [cur]
    alive = [[valid(c) for c in cur]]
    chain_ok = [TRUE] * n
    in_tree = [FALSE] * n
    for k in range(n - 1):
        in_tree = [b_or(in_tree[i], b_and(alive[k][i], chain_ok[i], b_eq(cur[i], root))) for i in range(n)]
        nxt, ok2 = [], []
        for i in range(n):
            c = cur[i]
            p = pick(P, c)
            link = b_and(alive[k][i], valid(p), z3.Xor(pick(L, p) == c, pick(R, p) == c))
            ok2.append(b_and(chain_ok[i], link))
            nxt.append(p)
        cur = nxt
        chain_ok = ok2
        ups.append(cur)
        alive.append([b_and(alive[-1][i], valid(cur[i])) for i in range(n)])
    in_tree[0] = FALSE
    return in_tree, ups, alive


def inv_closed(view):
    """Representation invariant in closed form (no ghost variables). Returns (named conjunct groups, in_tree)."""
    n = view.n
    P, L, R, C, K = view.P, view.L, view.R, view.C, view.K
    pick, valid = view.pick, view.valid
    root = view.root
    in_tree, ups, alive = closed_in_tree(view)
    G = {}
    G['shape'] = [view.buffer.len == n, b_or(b_eq(root, EMPTY32), valid(root)),
                  z3.Implies(root != EMPTY32, pick(P, root) == EMPTY32)] + capacities(view)
    links, redred = [], []
    for i in range(1, n):
        l, r = L[i], R[i]
        loc = []
        rr = []
        for c in (l, r):
            loc.append(z3.Or(c == EMPTY32, z3.And(valid(c), pick(P, c) == i)))
            rr.append(z3.Or(c == EMPTY32, z3.Not(z3.And(C[i] == 0, pick(C, c) == 0))))
        loc.append(z3.Or(l == EMPTY32, l != r))
        links.append(z3.Implies(in_tree[i], z3.And(loc)))
        redred.append(z3.Implies(in_tree[i], z3.And(rr)))
    G['links'] = links
    G['redred'] = redred
    G['colour'] = [z3.ULE(C[i], 1) for i in range(n)]       # type invariant of the Color enum, every slot
    G['linktyped'] = link_typed(view)
    G['stale'] = stale_acyclic_closed(view, in_tree)
    bst = []
    for a in range(1, n):
        for k in range(1, n - 1):
            b = ups[k][a]
            prev = ups[k - 1][a]
            inb = b_and(in_tree[a], alive[k][a])
            kb = pick(K, b)
            if view.strict:
                lt, gt = z3.ULT(K[a], kb), z3.UGT(K[a], kb)
            else:
                lt, gt = z3.ULE(K[a], kb), z3.UGE(K[a], kb)
            bst.append(z3.Implies(z3.And(inb, pick(L, b) == prev), lt))
            bst.append(z3.Implies(z3.And(inb, pick(R, b) == prev), gt))
    G['bst'] = bst
    cnts, leafs = [], []
    for i in range(1, n):
        cnt = bv(0, 8)
        for k in range(n - 1):
            c = ups[k][i]
            cnt = cnt + z3.If(z3.And(alive[k][i], pick(C, c) == 1), bv(1, 8), bv(0, 8))
        leafy = b_and(in_tree[i], z3.Or(L[i] == EMPTY32, R[i] == EMPTY32))
        cnts.append(cnt)
        leafs.append(leafy)
    ref = bv(0, 8)
    for c, l in reversed(list(zip(cnts, leafs))):
        ref = z3.If(l, c, ref)
    G['black'] = [z3.Implies(l, c == ref) for c, l in zip(cnts, leafs)]
    u = view.unused
    cnt = bv(0, 64)
    for i in range(1, n):
        cnt = cnt + z3.If(in_tree[i], bv(1, 64), bv(0, 64))
    acc = [u.len == bv(n - 1, 64) - cnt, z3.ULE(u.len, u.cap)]
    for j in range(n - 1):
        if j >= len(u.cells):
            acc.append(z3.ULE(u.len, bv(j, 64)))
            break
        uj = u.cells[j]
        acc.append(z3.Implies(z3.ULT(bv(j, 64), u.len), z3.And(valid(uj), z3.Not(pick(in_tree, uj)))))
        for j2 in range(j + 1, min(n - 1, len(u.cells))):
            acc.append(z3.Implies(z3.ULT(bv(j2, 64), u.len), uj != u.cells[j2]))
    G['accounting'] = acc
    # the sentinel (slot 0) is linked nowhere: follows from valid() >= 1 on every link of an in-tree node, restated explicitly
    sent = []
    for i in range(1, n):
        sent.append(z3.Implies(in_tree[i], z3.And(P[i] != 0, L[i] != 0, R[i] != 0)))
    sent.append(root != 0)
    G['sentinel'] = sent
    extra = {'ups': ups, 'alive': alive, 'blackref': ref, 'cnts': cnts}
    return G, in_tree, extra


def conj(G, names=None):
    out = []
    for k, v in G.items():
        if names is None or k in names:
            out += v
    return z3.And(out) if out else TRUE


def count_in(flags):
    c = bv(0, 64)
    for f in flags[1:]:
        c = c + z3.If(f, bv(1, 64), bv(0, 64))
    return c


def lookup(view, in_tree, x, t=None):
    """(found, [value leaves]) of the in-tree entry with key x (and expiration > t when t is given)"""
    found = FALSE
    val = None
    for i in range(view.n - 1, 0, -1):
        hit = b_and(in_tree[i], b_eq(view.K[i], x))
        if t is not None:
            hit = b_and(hit, z3.UGT(view.X[i], t))
        found = b_or(hit, found)
        val = view.V[i] if val is None else merge(hit, view.V[i], val)
    if val is None:
        val = [bv(0, VW)]
    return found, val


def count_key(view, in_tree, x, t=None):
    c = bv(0, 8)
    for i in range(1, view.n):
        hit = b_and(in_tree[i], b_eq(view.K[i], x))
        if t is not None:
            hit = b_and(hit, z3.UGT(view.X[i], t))
        c = c + z3.If(hit, bv(1, 8), bv(0, 8))
    return c


def pred_ref(view, in_tree, bound, t=None):
    """reference predecessor: among in-tree (live at t) entries with bound(key) true, the one with the greatest key.
    returns (exists, slot BV32, key, [value leaves]);  ties (equal keys) cannot occur among live entries by contract"""
    n = view.n
    cands = []
    for i in range(1, n):
        c = b_and(in_tree[i], bound(view.K[i]))
        if t is not None:
            c = b_and(c, z3.UGT(view.X[i], t))
        cands.append((i, c))
    exists = b_or(*[c for _, c in cands]) if cands else FALSE
    slot = EMPTY32
    key = bv(0, KW)
    val = [bv(0, VW)]
    # greatest key wins: fold, replacing when candidate and (none yet or key greater)
    have = FALSE
    for i, c in cands:
        better = b_and(c, b_or(b_not(have), z3.UGT(view.K[i], key)))
        slot = ite(better, bv(i, 32), slot)
        val = merge(better, view.V[i], val)
        key = ite(better, view.K[i], key)
        have = b_or(have, c)
    return exists, slot, key, val


def height_closed(view, in_tree, extra):
    """max depth (number of nodes on the longest root-to-node path) in closed form"""
    n = view.n
    ups, alive = extra['ups'], extra['alive']
    h = bv(0, 8)
    for i in range(1, n):
        d = bv(0, 8)
        for k in range(n - 1):
            d = d + z3.If(alive[k][i], bv(1, 8), bv(0, 8))
        h = z3.If(z3.And(in_tree[i], z3.UGT(d, h)), d, h)
    return h


def explicit_witness(view, in_tree, extra):
    """witness terms computed from the closed form (used by the lemma InvC => exists w. InvW)"""
    n = view.n
    ups, alive = extra['ups'], extra['alive']
    INF = (1 << KW) + 1
    it = [x if isinstance(x, z3.ExprRef) else z3.BoolVal(z3.is_true(x)) for x in in_tree]
    dp, bh, lo, hi, rk = [bv(0, 8)], [bv(0, 8)], [bv(0, KW + 2)], [bv(INF, KW + 2)], [bv(0, 8)]
    for i in range(1, n):
        d = bv(0, 8)
        for k in range(1, n - 1):
            d = d + z3.If(alive[k][i], bv(1, 8), bv(0, 8))
        dp.append(d)
        black_i = z3.If(view.C[i] == 1, bv(1, 8), bv(0, 8))
        bh.append(extra['blackref'] - (extra['cnts'][i - 1] - black_i))
        l, h = bv(0, KW + 2), bv(INF, KW + 2)
        for k in range(n - 2, 0, -1):
            b = ups[k][i]
            prev = ups[k - 1][i]
            kb = k10(view.pick(view.K, b))
            l = z3.If(z3.And(alive[k][i], view.pick(view.R, b) == prev), kb, l)
            h = z3.If(z3.And(alive[k][i], view.pick(view.L, b) == prev), kb, h)
        lo.append(l)
        hi.append(h)
        # stale rank = number of stale back-linked steps from i
        cur = bv(i, 32)
        al = z3.Not(it[i])
        steps = bv(0, 8)
        for k in range(n - 1):
            e, p = stale_edge(view, it, cur, z3.And(view.valid(cur), z3.Not(view.pick(it, cur))))
            al = z3.And(al, e)
            steps = steps + z3.If(al, bv(1, 8), bv(0, 8))
            cur = p
        rk.append(steps)
    return {'it': it, 'dp': dp, 'bh': bh, 'lo': lo, 'hi': hi, 'rk': rk}
