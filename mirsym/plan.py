"""Which step harnesses and history templates decide which property, per tier."""

KEY_Q = ['first_less', 'first_less_or_equal', 'first_less_or_equal_by']
MS_MUT = ['insert', 'delete', 'delete_by_index', 'clear', 'value_by_index_mut']
KEY_MUT = ['insert', 'get_value'] + KEY_Q + ['clear']


def steps_for(pid):
    """list of (kind, op)"""
    if pid == 'C01':
        return [('key', o) for o in ['insert'] + KEY_Q + ['is_empty']]
    if pid == 'C02':
        return [(k, o) for k in ('map', 'set') for o in MS_MUT] + [('key', o) for o in KEY_MUT]
    if pid == 'C04':
        return [('map', o) for o in ['insert', 'delete', 'get_value', 'is_empty', 'clear']]
    if pid == 'C05':
        return [('set', o) for o in ['insert', 'delete', 'get_value', 'is_empty', 'clear']]
    if pid == 'C06':
        return [('key', 'get_value')]
    if pid == 'C07':
        return [('key', 'into_ordered_vec'), ('key', 'is_part_of_the_tree')]
    if pid == 'C08':
        return [(k, o) for k in ('map', 'set') for o in ['first_index_less', 'first_index_less_by', 'value_by_index', 'value_by_index_mut', 'delete_by_index']]
    if pid == 'C09':
        return [('set', 'index_after'), ('set', 'index_before')]
    if pid == 'C10':
        return ([(k, o) for k in ('map', 'set') for o in MS_MUT + ['get_value', 'is_empty', 'first_index_less', 'first_index_less_by', 'value_by_index']]
                + [('set', 'index_after'), ('set', 'index_before')]
                + [('key', o) for o in KEY_MUT + ['is_empty', 'into_ordered_vec', 'is_part_of_the_tree']])
    if pid == 'C11':
        return [(k, o) for k in ('map', 'set') for o in ['insert', 'delete', 'delete_by_index', 'clear']] + [('key', o) for o in KEY_MUT]
    if pid == 'C12':
        return [(k, 'clear') for k in ('map', 'set', 'key')]
    if pid == 'C17':
        return [('map', 'insert'), ('set', 'insert')]
    if pid == 'C18':
        return ([(k, o) for k in ('map', 'set') for o in ['insert', 'delete', 'get_value', 'first_index_less', 'first_index_less_by']]
                + [('key', o) for o in ['insert', 'get_value'] + KEY_Q])
    if pid == 'C19':
        return [('key', 'into_ordered_vec')]
    if pid == 'C20':
        return [('key', o) for o in ['insert', 'get_value'] + KEY_Q]
    return []


def ins(n):
    return ['insert'] * n


def histories_for(pid, tier):
    """list of (kind, template)"""
    deep = tier in ('thorough', 'escalate')
    nmax = {'quick': 3, 'thorough': 4, 'escalate': 5}[tier]
    out = []

    def key_hist(finals, mids=('first_less_or_equal',)):
        for f in finals:
            for n in range(1, nmax + 1):
                out.append(('key', ins(n) + [f]))
            for n in range(2, nmax + 1):
                for mid in mids:
                    out.append(('key', ins(n) + [mid, f]))
                    if (deep and n <= 3) or n <= 2:
                        out.append(('key', ins(n) + [mid, 'insert', f]))

    def ms_hist(kinds, finals, mids=('delete',)):
        for k in kinds:
            for f in finals:
                for n in range(1, nmax + 1):
                    out.append((k, ins(n) + [f]))
                for n in range(2, nmax + 1):
                    for mid in mids:
                        out.append((k, ins(n) + [mid, f]))
                        if (deep and n <= 3) or n <= 2:
                            out.append((k, ins(n) + [mid, 'insert', f]))
    if pid == 'C01':
        key_hist(KEY_Q + ['is_empty'])
    elif pid == 'C06':
        key_hist(['get_value'])
    elif pid in ('C07', 'C19'):
        key_hist(['into_ordered_vec'], mids=('first_less_or_equal', 'get_value'))
        if pid == 'C19':
            # the arena has grown (9 entries), then the population drops: the export must not be sized from the arena
            out.append(('key', ['insert_asc'] * 9 + ['clear', 'insert', 'into_ordered_vec'], 0))
    elif pid == 'C20':
        key_hist(['get_value', 'insert'] + KEY_Q)
    elif pid in ('C04', 'C05'):
        k = 'map' if pid == 'C04' else 'set'
        ms_hist([k], ['get_value', 'is_empty', 'delete'])
        # values survive a clear followed by slot reuse and a removal that needs the temporary sentinel
        out.append((k, ['insert', 'clear'] + ins(4) + ['delete', 'get_value']))
        out.append((k, ins(2) + ['clear'] + ins(3) + ['pred_delete', 'get_value']))
    elif pid == 'C08':
        ms_hist(['map', 'set'], ['pred_read', 'pred_write', 'pred_delete', 'first_index_less_by'])
    elif pid == 'C09':
        ms_hist(['set'], ['pred_after', 'pred_before'])
    elif pid == 'C17':
        for k in ('map', 'set'):
            for n in range(1, nmax + 1):
                out.append((k, ins(n) + ['pred_insert_read']))
                if n <= 2 and deep:
                    out.append((k, ins(n) + ['pred_insert_read', 'pred_insert_read']))
    elif pid == 'C12':
        for k in ('map', 'set'):
            for n in range(1, nmax):
                out.append((k, ins(n) + ['clear', 'is_empty', 'insert', 'get_value']))
                out.append((k, ins(n) + ['clear', 'insert', 'insert', 'pred_read']))
        for k in ('map', 'set', 'key'):
            out.append((k, ['insert_asc'] * 7 + ['clear', 'insert', 'insert'] + (['is_empty'] if k == 'key' else ['pred_delete', 'get_value']), 0))
        for n in range(1, nmax):
            out.append(('key', ins(n) + ['clear', 'is_empty', 'insert', 'get_value']))
            out.append(('key', ins(n) + ['first_less', 'clear', 'insert', 'first_less_or_equal']))
            out.append(('key', ins(n) + ['clear', 'insert', 'into_ordered_vec']))
    elif pid in ('C02', 'C11', 'C10'):
        key_hist(['get_value', 'into_ordered_vec'] if pid == 'C10' else ['get_value'])
        ms_hist(['map', 'set'], ['pred_delete'] + (['pred_read'] if pid == 'C10' else []))
        if pid == 'C10':
            ms_hist(['set'], ['pred_after', 'pred_before'])
        for k in ('map', 'set', 'key'):
            out.append((k, ins(2) + ['clear', 'insert']))
            for cap in (0, 1, 8, 9):
                out.append((k, ['insert'] if cap else [], cap))       # base case new(capacity hint)
            out.append((k, ['insert_asc'] * 9 + (['is_empty'] if k == 'key' else ['get_value']), 0))      # arena growth from the default 8 slots (ascending keys)
            out.append((k, ins(3), 1))
            # arena exactly full (7 entries in the default 8 slots), then clear and reuse
            out.append((k, ['insert_asc'] * 7 + ['clear', 'insert', 'insert'] + (['is_empty'] if k == 'key' else ['get_value']), 0))
    # de-duplicate
    seen = set()
    res = []
    for item in out:
        k, t = item[0], item[1]
        cap = item[2] if len(item) > 2 else 0
        key = (k, tuple(t), cap)
        if key not in seen:
            seen.add(key)
            res.append((k, t, cap))
    return res


def tags_for(pid):
    if pid == 'C10':
        return ['C10:']
    if pid == 'C12':
        # every C12 harness contains a clear: the cleared collection has to be valid and to answer like a new one afterwards
        return ['C12:', 'C01:', 'C02:', 'C04:', 'C05:', 'C06:', 'C08:', 'C09:', 'C11:']
    if pid in ('C01', 'C04', 'C05', 'C06', 'C08', 'C17'):
        # the functional claims are stated over the abstraction of a VALID tree: each of these checks also discharges, in its own
        # harnesses, that the operation re-establishes the representation invariant its reasoning relies on
        return [pid + ':', 'C02:', 'C11:']
    return [pid + ':']
