"""Driver for the Kani/CBMC harnesses (engine E2): sorted-list variants, segment tree, layout and mask functions."""
import json
import os
import re
import shutil
import subprocess
import time
from concurrent.futures import ThreadPoolExecutor

from . import common

# harness -> (file, quick timeout s, thorough timeout s)
H = {
    'c15_masks_meet_iff_overlap': 'seg_pure.rs', 'c15_places_tile_range': 'seg_pure.rs', 'c14_mask_bits_below_count': 'seg_pure.rs',
    'c14_layout_i32': 'seg_pure.rs', 'c14_layout_u32': 'seg_pure.rs', 'c14_layout_i64': 'seg_pure.rs',
    'c03_domain32_one_value': 'seg_tree.rs', 'c03_domain32_two_values_partial_first': 'seg_tree.rs', 'c03_domain128_two_values': 'seg_tree.rs',
    'c15_tree_copies_per_insert': 'seg_tree.rs', 'c16_purge_domain32_two_values': 'seg_tree.rs', 'c16_purge_domain128_one_value': 'seg_tree.rs',
    'c12_seg_clear_equals_new': 'seg_tree.rs', 'c14_new_some_iff_more_than_16_points': 'seg_tree.rs',
    'c13_keylist_queries': 'lists.rs', 'c13_keylist_insert': 'lists.rs', 'c13_keylist_export_and_clear': 'lists.rs',
    'c13_maplist_ops': 'lists.rs', 'c13_setlist_ops': 'lists.rs', 'c12_lists_clear_equals_new': 'lists.rs', 'c18_keylist_callback_state': 'lists.rs', 'c18_keylist_purge_panic_keeps_cache_valid': 'lists.rs', 'c18_keylist_insert_accessor_panic': 'lists.rs',
    'c18_seg_callback_state': 'seg_tree.rs',
    'probe_insert_only': 'seg_tree.rs', 'probe_new_only': 'seg_tree.rs', 'probe_concrete_insert_symbolic_query': 'seg_tree.rs', 'probe_all_concrete_ranges': 'seg_tree.rs',
}

PLAN = {
    # pid: (quick harnesses, extra thorough harnesses).  Segment-tree harnesses through the public API are thorough-only: one
    # symbolic insert alone costs CBMC 7 minutes (the iterator harnesses did not finish in 50 min / 10 GB and are not registered).
    'C07': (['c13_keylist_export_and_clear'], []),
    'C10': (['c13_maplist_ops', 'c13_setlist_ops', 'c13_keylist_export_and_clear'], ['c13_keylist_queries', 'c13_keylist_insert']),
    'C12': (['c12_lists_clear_equals_new', 'c13_keylist_export_and_clear'], []),
    'C13': (['c13_maplist_ops', 'c13_setlist_ops', 'c13_keylist_export_and_clear', 'c13_keylist_queries', 'c13_keylist_insert'], []),
    'C14': (['c14_layout_i32', 'c14_layout_u32', 'c14_layout_i64', 'c14_mask_bits_below_count'], []),     # c14_new_some_iff_more_than_16_points: CBMC out of memory after 990 s
    'C15': (['c15_masks_meet_iff_overlap', 'c15_places_tile_range'], ['c15_tree_copies_per_insert']),
    'C18': (['c18_keylist_callback_state', 'c18_keylist_purge_panic_keeps_cache_valid', 'c18_keylist_insert_accessor_panic'], []),
    'C19': (['c13_keylist_export_and_clear'], []),
    'C20': (['c13_keylist_queries', 'c13_keylist_insert'], []),
}
TIMEOUT = {'quick': 900, 'thorough': 3000}
MEM_KB = 14_000_000


def crate_dir():
    rc = common.repo_copy()
    d = os.path.join(common.scratch(), 'kani')
    if not os.path.isdir(d):
        shutil.copytree(os.path.join(common.VERIF, 'kani'), d)
        open(os.path.join(d, 'Cargo.toml'), 'w').write(open(os.path.join(d, 'Cargo.toml.in')).read().replace('@REPO@', rc))
        lock = os.path.join(rc, 'Cargo.lock')
        if os.path.exists(lock):
            shutil.copy(lock, os.path.join(d, 'Cargo.lock'))
    return d


# per-loop unwinding bounds for the segment-tree harnesses (a single global bound multiplies through nested loops);
# first matching substring wins; every bound is guarded by CBMC's unwinding assertions
UNWIND_RULES = [('extend_with', 65), ('from_elem', 65), ('SegExpCollection', None), ('find_next_not_empty_chunk', 65),
                ('range_to_place_mask', 34), ('range_to_intersect_mask', 34), ('insert_by_range', 10),
                ('SegExpTreeIterator', 19), ('seg_tree', 6)]
ONE_VALUE = {'c03_domain32_one_value', 'c16_purge_domain128_one_value', 'c14_new_some_iff_more_than_16_points', 'c15_tree_copies_per_insert',
             'probe_concrete_insert_symbolic_query', 'probe_insert_only'}      # <= 8 stored copies: 9 outer iterations suffice
DEFAULT_UNWIND = 5


def unwindset(h):
    d = crate_dir()
    td = os.path.join(common.scratch(), 'tk-' + h)
    env = common.cargo_env(f'--cfg {common.GUARD}')
    subprocess.run(['cargo', 'kani', '--only-codegen', '--harness', h, '--target-dir', td], cwd=d, env=env, stdout=subprocess.PIPE, stderr=subprocess.STDOUT, text=True)
    outs = [os.path.join(r, f) for r, _, fs in os.walk(td) for f in fs if f.endswith(h + '.out') and '.symtab' not in f]
    if not outs:
        return None
    p = subprocess.run(['cbmc', '--show-loops', outs[0]], stdout=subprocess.PIPE, stderr=subprocess.DEVNULL, text=True)
    loops = re.findall(r'^Loop (\S+):\n\s+file (\S+) line (\d+).* function (.*)$', p.stdout, re.M)
    items = []
    for name, file, line, fn in loops:
        bound = DEFAULT_UNWIND
        for sub, b in UNWIND_RULES:
            if sub in name or sub in fn:
                if b is None:
                    # SegExpCollection impl: clear (one iteration per place), iter/insert handled by other rules
                    b = 65 if 'clear' in fn else (10 if 'insert_by_range' in fn else DEFAULT_UNWIND)
                if sub == 'SegExpTreeIterator' and h in ONE_VALUE:
                    b = 10
                bound = b
                break
        items.append(f'{name}:{bound}')
    return ','.join(items)


def run_harness(h, timeout, extra=()):
    d = crate_dir()
    td = os.path.join(common.scratch(), 'tk-' + h)
    env = common.cargo_env(f'--cfg {common.GUARD}')
    if H[h] == 'seg_tree.rs':
        us = unwindset(h)
        if us is None:
            return {'harness': h, 'wall_s': 0, 'rc': -1, 'verdict': 'error', 'checks': 0, 'failures': [], 'verification_s': None, 'tail': 'no goto binary'}
        extra = tuple(extra) + ('-Z', 'unstable-options', '--cbmc-args', '--unwindset', "'" + us + "'")
    cmd = f'ulimit -v {MEM_KB}; exec timeout {timeout} cargo kani --harness {h} --target-dir {td} ' + ' '.join(extra)
    t0 = time.time()
    p = subprocess.run(['bash', '-c', cmd], cwd=d, env=env, stdout=subprocess.PIPE, stderr=subprocess.STDOUT, text=True)
    out = p.stdout
    r = {'harness': h, 'wall_s': round(time.time() - t0, 1), 'rc': p.returncode}
    m = re.search(r'\*\* (\d+) of (\d+) failed', out)
    r['checks'] = int(m.group(2)) if m else 0
    r['failed_checks'] = int(m.group(1)) if m else None
    mc = re.search(r'\*\* (\d+) of (\d+) cover properties satisfied', out)
    if mc:
        r['covers'] = [int(mc.group(1)), int(mc.group(2))]
    m = re.search(r'Verification Time: ([\d.]+)s', out)
    r['verification_s'] = float(m.group(1)) if m else None
    m = re.search(r'(\d+) variables, (\d+) clauses', out)
    if m:
        r['sat_variables'], r['sat_clauses'] = int(m.group(1)), int(m.group(2))
    fails = re.findall(r'Failed Checks: (.*)\n\s*File: "([^"]*)", line (\d+)', out)
    r['failures'] = [{'check': a, 'file': b, 'line': int(c)} for a, b, c in fails][:8]
    if 'VERIFICATION:- SUCCESSFUL' in out:
        r['verdict'] = 'pass'
    elif p.returncode == 124:
        r['verdict'] = 'timeout'
    elif 'Out of memory' in out or 'std::bad_alloc' in out or 'CBMC failed' in out:
        r['verdict'] = 'oom/error'
    elif 'VERIFICATION:- FAILED' in out:
        if fails and all('unwinding assertion' in a for a, _, _ in fails):
            r['verdict'] = 'unwind-too-small'
        elif fails:
            r['verdict'] = 'fail'
        else:
            r['verdict'] = 'error'
    else:
        r['verdict'] = 'error'
        r['tail'] = out[-800:]
    if r['verdict'] in ('error', 'oom/error'):
        r['tail'] = out[-600:]
    return r


def playback(h):
    """re-run the failing harness with concrete playback and execute the generated unit tests natively"""
    d = crate_dir()
    td = os.path.join(common.scratch(), 'tk-pb-' + h)
    env = common.cargo_env(f'--cfg {common.GUARD}')
    src = os.path.join(d, 'src', H[h])
    before = open(src).read()
    cmd = f'ulimit -v {MEM_KB}; exec timeout 1800 cargo kani --harness {h} --target-dir {td} -Z concrete-playback --concrete-playback=inplace'
    subprocess.run(['bash', '-c', cmd], cwd=d, env=env, stdout=subprocess.PIPE, stderr=subprocess.STDOUT, text=True)
    after = open(src).read()
    added = after[len(before):] if after.startswith(before) else ''
    tests = re.findall(r'fn (kani_concrete_playback_\w+)\(', after)
    res = {'tests': tests, 'code': added if added else '\n'.join(l for l in after.splitlines() if l not in before.splitlines()), 'file': H[h], 'native_failed': []}
    if tests:
        p = subprocess.run(['bash', '-c', f'cargo kani playback -Z concrete-playback -- kani_concrete_playback_{h}'], cwd=d, env=env,
                           stdout=subprocess.PIPE, stderr=subprocess.STDOUT, text=True)
        res['native_failed'] = sorted(set(re.findall(r'test \S*(kani_concrete_playback_\w+) \.\.\. FAILED', p.stdout)
                                          + re.findall(r'^\s{4}\S*?(kani_concrete_playback_\w+)\s*$', p.stdout, re.M)))
        msgs = re.findall(r"panicked at ([^\n]*)\n([^\n]*)", p.stdout)
        res['native_messages'] = [f'{a} {b}'[:300] for a, b in msgs][:4]
    return res


def run(pid, tier, seed):
    t0 = time.time()
    quick, more = PLAN.get(pid, ([], []))
    hs = quick + (more if tier == 'thorough' else [])
    if not hs:
        return None
    crate_dir()
    common.log(f'[{pid}] kani harnesses: {hs}')
    with ThreadPoolExecutor(max_workers=min(4, len(hs))) as ex:
        results = list(ex.map(lambda h: run_harness(h, TIMEOUT[tier]), hs))
    inconclusive, confirmed, lines = [], [], []
    for r in results:
        if r['verdict'] == 'pass':
            if r.get('covers') and r['covers'][0] < r['covers'][1]:
                inconclusive.append(f'kani {r["harness"]}: only {r["covers"][0]} of {r["covers"][1]} cover (reachability) witnesses satisfied')
            continue
        if r['verdict'] != 'fail':
            inconclusive.append(f'kani {r["harness"]}: {r["verdict"]} after {r["wall_s"]}s {r.get("tail", "")[-200:]}')
            continue
        pb = playback(r['harness'])
        r['playback'] = {'tests': pb['tests'], 'native_failed': pb['native_failed'], 'messages': pb.get('native_messages')}
        if pb['native_failed']:
            for f in r['failures']:
                where = os.path.basename(f['file']) + ':' + re.sub(r'\W+', '_', f['check'])[:60]
                confirmed.append({'key': f'{pid}|kani|{r["harness"]}|{where}', 'harness': r['harness'], 'failure': f, 'playback': pb})
        else:
            # a failure that concrete playback cannot reproduce: run the harness once more (observed once: a spurious failure of
            # kani_lib.c's dealloc model check under heavy machine load that did not recur); a genuine failure is deterministic
            r2 = run_harness(r['harness'], TIMEOUT[tier])
            r['retry'] = {'verdict': r2['verdict'], 'failures': r2['failures'][:2]}
            if r2['verdict'] == 'pass':
                r['verdict'] = 'pass-on-retry'
                r['checks'] = r2['checks']
            else:
                inconclusive.append(f'kani {r["harness"]}: failure does not reproduce natively under concrete playback: {r["failures"][:2]}')
    known = {k['key']: k for k in common.load_known().get('known', []) if k['property'] == pid}
    new = []
    seen = set()
    for c in confirmed:
        if c['key'] in seen:
            continue
        seen.add(c['key'])
        if c['key'] in known:
            lines.append(f'KNOWN-FINDING: property={pid} {known[c["key"]]["what"]}')
        else:
            new.append(c)
    rdir = os.path.join(common.evidence_dir(), 'replay')
    os.makedirs(rdir, exist_ok=True)
    for i, c in enumerate(new):
        path = os.path.join(rdir, f'{pid}-kani-{i}.json')
        json.dump({'property': pid, 'engine': 'kani-playback', 'harness': c['harness'], 'failure': c['failure'], 'file': c['playback']['file'],
                   'code': c['playback']['code'], 'native_messages': c['playback'].get('native_messages')}, open(path, 'w'), indent=1)
        lines.append(f'VIOLATION property={pid} replay={path}')
    cov = {
        'kani_harnesses': [{k: v for k, v in r.items() if k != 'tail'} for r in results],
        'kani_checks_total': sum(r['checks'] for r in results),
        'kani_solver_time_s': round(sum(r['verification_s'] or 0 for r in results), 1),
        'kani_version': '0.68.0 / CBMC 6.11.0 (cadical)',
        'kani_bounds': 'lists: <= 3 stored entries (symbolic count and contents), unwind 6 with unwinding assertions; segment tree: domains [0,31] and [-50,77], <= 2 stored values, <= 2 queries; layout/masks: all inputs (no bound)',
    }
    return {'rc': 1 if new else (2 if inconclusive else 0), 'lines': lines, 'inconclusive': inconclusive, 'coverage': cov,
            'checks': cov['kani_checks_total'], 'harnesses': len(results), 'violations': len(new), 'wall_s': time.time() - t0,
            'confirmed': len(confirmed),
            'samples': [{'harness': r['harness'], 'verdict': r['verdict'], 'checks': r['checks'], 'verification_s': r['verification_s']} for r in results]}


def replay_file(path):
    d = json.load(open(path))
    cd = crate_dir()
    src = os.path.join(cd, 'src', d['file'])
    open(src, 'a').write('\n' + d['code'] + '\n')
    env = common.cargo_env(f'--cfg {common.GUARD}')
    p = subprocess.run(['bash', '-c', f'cargo kani playback -Z concrete-playback -- kani_concrete_playback_{d["harness"]}'], cwd=cd, env=env,
                       stdout=subprocess.PIPE, stderr=subprocess.STDOUT, text=True)
    failed = re.findall(r'test \S*(kani_concrete_playback_\w+) \.\.\. FAILED', p.stdout) + re.findall(r'^\s{4}\S*?(kani_concrete_playback_\w+)\s*$', p.stdout, re.M)
    print(p.stdout[-1500:])
    return 1 if failed else 0
