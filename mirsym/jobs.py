"""Parallel job runner: splits a step harness into exhaustive cubes (root slot x handle x #expired) and runs
them on a process pool.  The cube split is itself checked by the solver (assumptions /\\ no-cube is unsat)."""
import os
import time
import multiprocessing as mp
import z3

from .mir import Program
from .engine import EMPTY32, bv
from . import steps

_PROG = {}


def program(path):
    p = _PROG.get(path)
    if p is None:
        p = Program(open(path).read())
        _PROG[path] = p
    return p


def cube_fn(cube):
    def f(ctx):
        out = []
        if 'root' in cube:
            r = cube['root']
            out.append(ctx.view.root == (EMPTY32 if r < 0 else bv(r, 32)))
        if 'h' in cube:
            out.append(ctx.sym['h'] == cube['h'])
        for fld, arr in (('rl', 'L'), ('rr', 'R')):
            if fld in cube:
                v = ctx.view.pick(getattr(ctx.view, arr), ctx.view.root)
                out.append(v == (EMPTY32 if cube[fld] < 0 else bv(cube[fld], 32)))
        if 'cnt' in cube:
            from .trees import count_in
            out.append(count_in(ctx.it) == cube['cnt'])
        if 'nexp' in cube:
            t = ctx.sym['t']
            c = bv(0, 8)
            for i in range(1, ctx.view.n):
                c = c + z3.If(z3.And(ctx.it[i], z3.ULE(ctx.view.X[i], t)), bv(1, 8), bv(0, 8))
            out.append(c == cube['nexp'])
        return out
    return f


def make_cubes(kind, opname, N, max_expired, min_expired=0):
    op = steps.OPS[kind][opname]
    roots = [-1] + list(range(1, N))
    cubes = [{'root': r} for r in roots]
    if op.needs_handle:
        cubes = [dict(c, h=h) for c in cubes for h in range(1, N) if c['root'] >= 0]
    elif N >= 5 and opname not in ('is_empty',):
        cubes = [c for c in cubes if c['root'] < 0] + [dict(c, cnt=k) for c in cubes if c['root'] >= 0 for k in range(1, N)]
    if False and N >= 6 and opname not in ('is_empty', 'value_by_index', 'value_by_index_mut', 'clear'):   # measured: 4x slower than the coarse split
        # also fix the root's children: the top of the tree is concrete in every cube (exhaustive: EMPTY or any other slot)
        out = []
        for c in cubes:
            if c['root'] < 0:
                out.append(c)
                continue
            slots = [-1] + [x for x in range(1, N) if x != c['root']]
            for rl in slots:
                for rr in slots:
                    if rl >= 0 and rl == rr:
                        continue
                    out.append(dict(c, rl=rl, rr=rr))
        cubes = out
    if kind == 'key' and max_expired is not None and max_expired > 0 and opname not in ('clear', 'is_empty', 'is_part_of_the_tree'):
        cubes = [dict(c, nexp=e) for c in cubes for e in range(min_expired, max_expired + 1) if not (c['root'] < 0 and e > 0)]
    return cubes


def run_job(job):
    t0 = time.time()
    P = program(job['mir'])
    z3.set_param('sat.random_seed', job.get('seed', 0))
    steps.TAG_FILTER = job.get('tags')
    try:
        r = steps.run_step(P, job['kind'], job['op'], job['N'], cube=cube_fn(job['cube']) if job.get('cube') is not None else None,
                           max_expired=job.get('max_expired'), allow_growth=job.get('growth', False),
                           timeout_ms=job.get('timeout_ms', 600000), seed=job.get('seed', 0),
                           check_callbacks=job.get('check_callbacks', True))
    except Exception as ex:      # noqa  (reported as inconclusive, never as success)
        import traceback
        r = {'kind': job['kind'], 'op': job['op'], 'N': job['N'], 'error': repr(ex), 'trace': traceback.format_exc()[-1500:]}
    r['cube'] = job.get('cube')
    r['job_wall_s'] = time.time() - t0
    return r


def expand(spec, mir, seed=0):
    """spec: dict(kind, op, N, max_expired?, growth?) -> list of jobs (one per cube)"""
    cubes = make_cubes(spec['kind'], spec['op'], spec['N'], spec.get('max_expired'), spec.get('min_expired', 0))
    if spec.get('growth'):
        cubes = [c for c in cubes if c['root'] >= 0]
    jobs = []
    for c in cubes:
        j = dict(spec)
        j['cube'] = c
        j['mir'] = mir
        j['seed'] = seed
        jobs.append(j)
    return jobs


def run_all(jobs, procs=None, progress=None):
    procs = procs or min(16, os.cpu_count() or 1)
    # biggest first: cubes with a real root and larger N take longest
    jobs = sorted(jobs, key=lambda j: (-j['N'], j['cube'].get('root', 0) < 0 if j.get('cube') else False))
    out = []
    if procs == 1 or len(jobs) == 1:
        for j in jobs:
            out.append(run_job(j))
            if progress:
                progress(out[-1])
        return out
    ctx = mp.get_context('fork')
    with ctx.Pool(procs, maxtasksperchild=4) as pool:
        for r in pool.imap_unordered(run_job, jobs, chunksize=1):
            out.append(r)
            if progress:
                progress(r)
    return out


def merge_results(results):
    """aggregate per (kind, op, N)"""
    agg = {}
    for r in results:
        key = (r['kind'], r['op'], r['N'], bool(r.get('growth')))
        a = agg.setdefault(key, {'kind': r['kind'], 'op': r['op'], 'N': r['N'], 'cubes': 0, 'paths': 0, 'obligations': 0, 'queries': 0,
                                 'unknown': 0, 'violations': [], 'n_violations': 0, 'errors': [], 'unsupported': [], 'by_kind': {},
                                 'post_tags': {}, 'statuses': {}, 'solver_calls': 0, 'solver_s': 0.0, 'query_s': 0.0, 'cpu_s': 0.0,
                                 'fns': set(), 'samples': [], 'callbacks': 0, 'cb_snapshots_checked': 0, 'vacuous_cubes': 0})
        a['cubes'] += 1
        if 'error' in r:
            a['errors'].append(r['error'] + ' ' + r.get('trace', '')[-400:])
            continue
        if r.get('vacuous'):
            a['vacuous_cubes'] += 1
        for k in ('paths', 'obligations', 'queries', 'unknown', 'callbacks', 'cb_snapshots_checked'):
            a[k] += r.get(k, 0)
        a['n_violations'] += r.get('n_violations', 0)
        for v in r.get('violations', []):
            v = dict(v)
            v['cube'] = r.get('cube')
            a['violations'].append(v)
        if r.get('unsupported'):
            a['unsupported'].append(r['unsupported'])
        for d in ('by_kind', 'post_tags', 'statuses'):
            for k, v in r.get(d, {}).items():
                a[d][k] = a[d].get(k, 0) + v
        st = r.get('stats', {})
        a['solver_calls'] += st.get('solver_calls', 0)
        a['solver_s'] += st.get('solver_s', 0.0)
        a['query_s'] += r.get('query_s', 0.0)
        a['cpu_s'] += r.get('wall_s', 0.0)
        a['fns'].update(r.get('fns', []))
        if len(a['samples']) < 3:
            for smp in r.get('samples', [])[:1]:
                a['samples'].append(dict(smp, cube=r.get('cube')))
    for a in agg.values():
        a['fns'] = sorted(a['fns'])
    return agg
