"""Segment tree (seg::tree::SegExpTree<i32, u8, {id,exp}>) on the MIR executor.

The bit-iteration loops fork on "place empty / not empty" for every visited place, so fully symbolic ranges
are out of reach (no state merging).  Here the *bucket ranges are concrete per job* (enumerated from a stated
family), while expirations, query times and the number of items consumed from a partially consumed query are
symbolic and decided by the solver.  The real insert_by_range / iter_by_range / Iterator::next / clear code is
executed from its MIR, including Layout::new, the mask functions and BitIter."""
import re
import time
import z3

from .engine import (Engine, State, Limits, Unsupported, Ref, VecVal, UNIT, Opaque, bv, b_and, b_or, b_not, b_eq, b_ult, ite,
                     merge, zext, TRUE, FALSE, is_enum)
from .instance import BaseInstance
from .steps import final_query, model_int
from . import steps as steps_mod

IDW = 8
EW = 8

NEW_CACHE = {}

TYPE_MODULE = {'SegExpTree': 'seg::tree', 'SegExpTreeIterator': 'seg::tree', 'Chunk': 'seg::chunk', 'Layout': 'seg::layout',
               'Heap32': 'seg::heap', 'BitIter': 'seg::heap', 'Entity': 'seg::entity'}


def conc(v):
    if not z3.is_bv_value(v):
        raise Unsupported('segment-tree harness needs a concrete value here (ranges are concrete per job)')
    return v.as_long()


class SegInst(BaseInstance):
    module = 'seg'
    tree_type = 'SegExpTree'
    kind = 'seg'

    def find(s, P, mod, meth, args, self_hint=None):
        c = [f for f in P.find(mod, meth) if f.nargs == len(args)]
        if not c:       # item names inside `mod seg` are printed relative in some positions (heap::<impl ...>)
            short = mod.split('::', 1)[1]
            c = [f for n, f in P.fns.items() if n.startswith(short + '::') and n.endswith('::' + meth) and f.nargs == len(args) and 'promoted' not in n]
        if len(c) > 1 and self_hint:
            c2 = [f for f in c if self_hint in f.locals.get('_1', '')]
            c = c2 or c
        if len(c) != 1:
            raise Unsupported(f'cannot resolve seg {mod}::{meth}/{len(args)}: {c}')
        return c[0]

    def resolve_fn(s, eng, fr, callee, args):
        P = eng.P
        c = callee
        m = re.match(r'^(?:(?:seg|layout|heap|chunk|entity|tree)::)*(\w+)(?:::<.*?>)?::(\w+)(?:::<.*>)?$', c)
        if m and m.group(1) in TYPE_MODULE:
            hint = m.group(1) + '<' if m.group(1) in ('SegExpTree', 'SegExpTreeIterator') else None
            return s.find(P, TYPE_MODULE[m.group(1)], m.group(2), args, hint)
        if c == '<u64 as BitOp>::fill':
            return s.find(P, 'seg::bit', 'fill', args)
        if c in ('<&mut BitIter as Iterator>::next', '<BitIter as Iterator>::next'):
            a = args[0]
            if c.startswith('<&mut'):
                # blanket impl for &mut I: forwards to I::next(&mut **self)
                inner = eng.read(eng._cur_state, a)
                args[0] = inner
            return s.find(P, 'seg::heap', 'next', args)
        m = re.match(r'^<SegExpTree<.*> as SegExpCollection<.*>>::(\w+)$', c)
        if m:
            return s.find(P, 'seg::tree', m.group(1), args, 'SegExpTree<')
        m = re.match(r"^<SegExpTreeIterator<.*> as Iterator>::next$", c)
        if m:
            return s.find(P, 'seg::tree', 'next', args, 'SegExpTreeIterator<')
        return None

    def const(s, eng, st, fr, c):
        m = re.match(r'^(?:seg::)?heap::Heap32::(\w+)$', c)
        if m:
            f = [fn for n, fn in eng.P.fns.items() if n.endswith('::' + m.group(1)) and 'heap' in n and fn.nargs == 0]
            if len(f) != 1:
                raise Unsupported('const ' + c)
            return eng.eval_const_item(st, f[0])
        raise Unsupported('const ' + c)

    def pure_call(s, callee, args):
        m = re.match(r'^core::num::<impl (u32|usize|u64)>::ilog2$', callee)
        if m:
            v = conc(args[0])
            if v == 0:
                raise Unsupported('ilog2(0)')
            return bv(v.bit_length() - 1, 32)
        return NotImplemented

    def user_intrinsic(s, eng, st, fr, stmt, callee, args):
        R = lambda v: eng.ret_value(st, fr, stmt, v)
        c = callee
        if c in ('<R as Into<i64>>::into', '<i64 as From<R>>::from'):
            v = args[0]
            return R(z3.simplify(z3.SignExt(32, v)) if z3.is_bv_value(v) else z3.SignExt(32, v))
        if c == '<R as Clone>::clone':
            return R(eng.read(st, args[0]))
        v = s.pure_call(c, args)
        if v is not NotImplemented:
            eng.oblige(st, TRUE, 'panic', 'ilog2 of a positive value')
            return R(v)
        m = re.match(r'^core::num::<impl u64>::trailing_zeros$', c)
        if m:
            x = args[0]
            if z3.is_bv_value(x):
                n = x.as_long()
                tz = 64 if n == 0 else (n & -n).bit_length() - 1
                return R(bv(tz, 32))
            r = bv(64, 32)
            for i in range(63, -1, -1):
                r = ite(z3.Extract(i, i, x) == 1, bv(i, 32), r)
            return R(r)
        if c.startswith('std::vec::from_elem::<'):
            elem, n = args
            k = conc(n)
            return R(VecVal(bv(k, 64), [elem] * k, bv(k, 64)))
        if c == '<V as ExpiredVal<E>>::expiration':
            v = eng.read(st, args[0])
            s.callback(eng, st, 'expiration', [v])
            return R(v[1])
        if c == '<E as Expiration>::max_expiration':
            return R(bv((1 << EW) - 1, EW))                      # E is the unsigned EW-bit stand-in: E::MAX
        m = re.match(r'^<E as Ord>::(min|max)$', c)
        if m:
            a, b = args[0], args[1]
            pick_b = z3.ULT(b, a) if m.group(1) == 'min' else z3.UGE(b, a)   # std: min -> b if b < a, max -> b if b >= a
            r = z3.If(pick_b, b, a)
            return R(z3.simplify(r) if z3.is_bv_value(a) and z3.is_bv_value(b) else r)
        m = re.match(r'^<E as PartialOrd>::(gt|ge|lt|le)$', c)
        if m:
            a = eng.read(st, args[0]); b = eng.read(st, args[1])
            op = {'gt': z3.UGT, 'ge': z3.UGE, 'lt': z3.ULT, 'le': z3.ULE}[m.group(1)]
            r = op(a, b)
            return R(z3.simplify(r) if z3.is_bv_value(a) and z3.is_bv_value(b) else r)
        if re.match(r'^<&mut BitIter as IntoIterator>::into_iter$|^<BitIter as IntoIterator>::into_iter$', c):
            return R(args[0])
        if re.match(r"^core::slice::<impl \[.*\]>::iter_mut$", c):
            return R(['sliceiter', args[0], bv(0, 64)])
        if re.match(r"^<std::slice::IterMut<.*> as IntoIterator>::into_iter$", c):
            return R(args[0])
        if re.match(r"^<std::slice::IterMut<.*> as Iterator>::skip$", c):
            it = args[0]
            return R(['sliceiter', it[1], bv(conc(it[2]) + conc(args[1]), 64)])
        if re.match(r"^<Skip<std::slice::IterMut<.*>> as IntoIterator>::into_iter$", c):
            return R(args[0])
        if re.match(r"^<Skip<std::slice::IterMut<.*>> as Iterator>::next$", c):
            c = "<std::slice::IterMut<'_, X> as Iterator>::next"
            return s.user_intrinsic(eng, st, fr, stmt, c, args)
        if re.match(r"^<std::slice::IterMut<.*> as Iterator>::next$", c):
            it = eng.read(st, args[0])
            vec = eng.read(st, it[1])
            i = conc(it[2])
            n = conc(vec.len)
            if i < n:
                eng.write(st, args[0], ['sliceiter', it[1], bv(i + 1, 64)])
                return R(['enum', bv(1, 64), [Ref(it[1].root, it[1].path + (('i', bv(i, 64)),))]])
            return R(['enum', bv(0, 64), []])
        if re.match(r'^<Option<.*> as Try>::branch$', c):
            o = args[0]
            d = conc(o[1])
            if d == 1:
                return R(['enum', bv(0, 64), [o[2][0]]])         # ControlFlow::Continue(v)
            return R(['enum', bv(1, 64), [['enum', bv(0, 64), []]]])   # ControlFlow::Break(None)
        if re.match(r'^<Option<.*> as FromResidual<.*>>::from_residual$', c):
            return R(['enum', bv(0, 64), []])
        if re.match(r'^<Vec<.*> as Clone>::clone$', c):
            return R(eng.read(st, args[0]))
        return NotImplemented

    def vec_method(s, eng, st, fr, stmt, elem, meth, args):
        R = lambda v: eng.ret_value(st, fr, stmt, v)
        if meth == 'new':
            return R(VecVal(bv(0, 64), [], bv(0, 64)))
        if meth == 'swap_remove':
            vec = eng.read(st, args[0])
            idx = args[1]
            n = conc(vec.len)
            i = conc(idx)
            eng.oblige(st, TRUE if i < n else FALSE, 'panic', 'swap_remove index < len')
            if i >= n:
                return R(UNIT)
            cells = list(vec.cells)
            removed = cells[i]
            cells[i] = cells[n - 1]
            eng.write(st, args[0], VecVal(bv(n - 1, 64), cells, vec.cap))
            return R(removed)
        return BaseInstance.vec_method(s, eng, st, fr, stmt, elem, meth, args)


# ------------------------------------------------------------------------------------------------ histories
class SegHist:
    """template: list of ops:
         ('insert', a, b, id)      value id over [a,b] with symbolic expiration
         ('query', c, d, mode)     mode 'full' (consume everything) | 'partial' (consume a symbolic number k <= 2 of items, then drop)
         ('clear',)
       domain (lo, hi) concrete.  Times are symbolic and non-decreasing between clears."""

    def __init__(s, P, lo, hi, template, timeout_ms=60000, tags=None):
        s.P, s.lo, s.hi, s.template = P, lo, hi, template
        s.inst = SegInst()
        s.timeout_ms = timeout_ms
        s.res = {'kind': 'seg', 'domain': [lo, hi], 'template': template, 'paths': 0, 'queries': 0, 'obligations': 0, 'unknown': 0,
                 'violations': [], 'n_violations': 0, 'post_tags': {}, 'statuses': {}, 'callbacks': 0}
        s.solver = z3.SolverFor('QF_BV')
        s.qtime = 0.0
        span = hi - lo + 1
        s.scale = max(0, (span - 1).bit_length() - 5)

    def bucket(s, x):
        return (x - s.lo) >> s.scale

    def entry(s, name, nargs, hint=None):
        return s.inst.find(s.P, 'seg::tree', name, [None] * nargs, hint)

    def post(s, eng, st, tag, cond):
        s.res['post_tags'][tag] = s.res['post_tags'].get(tag, 0) + 1
        eng.oblige(st, cond, 'post', f'{tag}@{st.aux["pos"]}')

    def start(s, eng, st):
        A = st.aux
        op = s.template[A['pos']]
        tree = Ref(('heap', 'tree'))
        if op[0] == 'insert':
            e = z3.BitVec(f'e_{A["pos"]}', EW)
            A['syms'] = A['syms'] + [(A['pos'], 'exp', e)]
            A['vals'] = A['vals'] + [{'id': op[3], 'a': op[1], 'b': op[2], 'exp': e}]
            return s.entry('insert_by_range', 3, 'SegExpTree<'), [tree, [bv(op[1], 32), bv(op[2], 32)], [bv(op[3], IDW), e]]
        if op[0] == 'clear':
            A['vals'] = []
            A['now'] = None
            return s.entry('clear', 1, 'SegExpTree<'), [tree]
        if op[0] == 'query':
            t = z3.BitVec(f't_{A["pos"]}', EW)
            A['syms'] = A['syms'] + [(A['pos'], 'time', t)]
            if A['now'] is not None:
                c = z3.UGE(t, A['now'])
                eng.solver.add(c)
                st.event(('assume', c))
            A['now'] = t
            A['q'] = {'c': op[1], 'd': op[2], 't': t, 'got': [], 'mode': op[3], 'phase': 'iter'}
            if op[3] == 'partial':
                k = z3.BitVec(f'k_{A["pos"]}', 8)
                A['syms'] = A['syms'] + [(A['pos'], 'consume', k)]
                c2 = z3.ULE(k, 2)
                eng.solver.add(c2)
                st.event(('assume', c2))
                A['q']['k'] = k
            return s.entry('iter_by_range', 3, 'SegExpTree<'), [tree, [bv(op[1], 32), bv(op[2], 32)], t]
        raise Unsupported(f'seg op {op}')

    def expected(s, st, q, v):
        """value v belongs to the answer of query q"""
        ov = s.bucket(v['a']) <= s.bucket(q['d']) and s.bucket(q['c']) <= s.bucket(v['b'])
        return z3.UGE(v['exp'], q['t']) if ov else FALSE

    def on_return(s, eng, st):
        A = st.aux
        if A['pos'] < 0:
            r = st.result
            if not (is_enum(r) and z3.is_bv_value(r[1]) and r[1].as_long() == 1):
                s.res['new_is_none'] = True
                return None
            st.heap['tree'] = r[2][0]
            NEW_CACHE[(id(s.P), s.lo, s.hi)] = (r[2][0], {k: v for k, v in st.heap.items() if k.startswith('const:')}, set(eng.fns_seen))
            return s.next_op(eng, st)
        op = s.template[A['pos']]
        if op[0] == 'query':
            q = A['q']
            if q['phase'] == 'iter':
                st.heap['iter'] = st.result
                q['phase'] = 'next'
                q['n'] = 0
                return s.call_next(eng, st)
            if q['phase'] == 'next':
                r = st.result
                some = z3.is_bv_value(r[1]) and r[1].as_long() == 1
                if some:
                    q['got'] = q['got'] + [r[2][0]]
                    q['n'] += 1
                    if q['n'] > 4:
                        s.post(eng, st, 'C03:yields-nothing-else', FALSE)
                        return s.finish_query(eng, st, exhausted=False)
                    if q['mode'] == 'partial':
                        # stop after k items: fork on "k == n"
                        stop = q['k'] == q['n']

                        def do_stop(st2):
                            st2.aux['q'] = dict(st2.aux['q'], phase='stopped')

                        def do_go(st2):
                            pass
                        ch = eng.fork(st, [(stop, do_stop), (z3.Not(stop), do_go)])
                        if ch is not None:
                            for c2 in ch:
                                c2.aux['resume'] = True
                            return ch
                        if st.aux['q']['phase'] == 'stopped':
                            return s.finish_query(eng, st, exhausted=False)
                    return s.call_next(eng, st)
                return s.finish_query(eng, st, exhausted=True)
        return s.next_op(eng, st)

    def resume(s, eng, st):
        """continue a state that was forked inside on_return"""
        st.aux['resume'] = False
        if st.aux['q']['phase'] == 'stopped':
            return s.finish_query(eng, st, exhausted=False)
        return s.call_next(eng, st)

    def call_next(s, eng, st):
        fn = s.entry('next', 1, 'SegExpTreeIterator<')
        eng.push_call(st, fn, [Ref(('heap', 'iter'))], None, None, None)
        return 'continue'

    def finish_query(s, eng, st, exhausted):
        A = st.aux
        q = A['q']
        vals = A['vals']
        for v in vals:
            cnt = bv(0, 8)
            for g in q['got']:
                cnt = cnt + z3.If(g[0] == v['id'], bv(1, 8), bv(0, 8))
            exp_ok = z3.And([z3.Implies(g[0] == v['id'], g[1] == v['exp']) for g in q['got']]) if q['got'] else TRUE
            want = s.expected(st, q, v)
            if exhausted:
                s.post(eng, st, 'C03:each-live-overlapping-value-exactly-once', z3.And(cnt == z3.If(want, bv(1, 8), bv(0, 8)), exp_ok))
            else:
                s.post(eng, st, 'C03:partial-consumption-is-duplicate-free-subset', z3.And(z3.ULE(cnt, z3.If(want, bv(1, 8), bv(0, 8))), exp_ok))
        known = [z3.Or([g[0] == v['id'] for v in vals]) if vals else FALSE for g in q['got']]
        if known:
            s.post(eng, st, 'C03:yields-nothing-else', z3.And(known))
        # C16: after a fully consumed whole-domain query only copies of unexpired values are stored (none lost either)
        tree = st.heap['tree']
        if exhausted and q['c'] == s.lo and q['d'] == s.hi:
            s.purge_check(eng, st, tree, q, vals)
        st.heap.pop('iter', None)
        return s.next_op(eng, st)

    def chunks_of(s, tree):
        for x in tree:
            if isinstance(x, VecVal):
                return x
        raise Unsupported('tree layout')

    def purge_check(s, eng, st, tree, q, vals):
        chunks = s.chunks_of(tree)
        conds = []
        for j, ch in enumerate(chunks.cells):
            buf = ch[0]
            n = conc(buf.len)
            for cell in buf.cells[:n]:
                val = cell[0]
                conds.append(z3.UGE(val[1], q['t']))
        s.post(eng, st, 'C16:no-expired-copy-left-after-whole-domain-query', z3.And(conds) if conds else TRUE)
        # every unexpired value keeps one copy at each place of its mask: count copies per value
        for v in vals:
            cnt = 0
            terms = []
            for j, ch in enumerate(chunks.cells):
                buf = ch[0]
                for cell in buf.cells[:conc(buf.len)]:
                    terms.append(z3.If(cell[0][0] == v['id'], bv(1, 8), bv(0, 8)))
            total = sum(terms[1:], terms[0]) if terms else bv(0, 8)
            s.post(eng, st, 'C16:unexpired-copies-kept', z3.Implies(z3.UGE(v['exp'], q['t']), total == v.get('copies', total)))

    def record_copies(s, st):
        """after an insert: number of stored copies of the new value (for C15 through the tree and C16)"""
        chunks = s.chunks_of(st.heap['tree'])
        v = st.aux['vals'][-1]
        n = 0
        for ch in chunks.cells:
            buf = ch[0]
            for cell in buf.cells[:conc(buf.len)]:
                if z3.is_bv_value(cell[0][0]) and cell[0][0].as_long() == v['id']:
                    n += 1
        v['copies'] = bv(n, 8)
        return n

    def next_op(s, eng, st):
        A = st.aux
        if A['pos'] >= 0 and s.template[A['pos']][0] == 'insert':
            n = s.record_copies(st)
            s.post(eng, st, 'C15:at-most-8-copies', TRUE if 1 <= n <= 8 else FALSE)
        if A['pos'] >= 0 and s.template[A['pos']][0] == 'clear':
            chunks = s.chunks_of(st.heap['tree'])
            s.post(eng, st, 'C12:clear-empties-every-place', TRUE if all(conc(ch[0].len) == 0 for ch in chunks.cells) else FALSE)
        A['pos'] += 1
        if A['pos'] >= len(s.template):
            return None
        fn, args = s.start(eng, st)
        eng.push_call(st, fn, args, None, None, None)
        return 'continue'

    def on_path(s, eng, st, status):
        res = s.res
        res['paths'] += 1
        res['statuses'][status] = res['statuses'].get(status, 0) + 1
        events = st.event_list()
        t0 = time.time()
        verdict, m, item, nd = final_query(events, [], s.timeout_ms)
        s.qtime += time.time() - t0
        res['queries'] += 1
        res['obligations'] += nd
        if verdict == 'unknown':
            res['unknown'] += 1
        elif verdict == 'sat':
            res['n_violations'] += 1
            if len(res['violations']) < 3:
                if item[2] == 'post':
                    tag, at = item[3].split('@')
                else:
                    tag, at = 'C10:' + item[2], str(st.aux['pos'])
                concrete = []
                syms = {(i, n): model_int(m, v) for i, n, v in st.aux['syms']}
                for i, op in enumerate(s.template):
                    d = {'op': op[0]}
                    if op[0] == 'insert':
                        d.update(a=op[1], b=op[2], id=op[3], exp=syms.get((i, 'exp'), 0))
                    elif op[0] == 'query':
                        d.update(c=op[1], d=op[2], mode=op[3], time=syms.get((i, 'time'), 0), consume=syms.get((i, 'consume'), 255))
                    concrete.append(d)
                res['violations'].append({'tag': tag, 'desc': item[3], 'at_op': int(at), 'status': status,
                                          'history': {'kind': 'seg', 'lo': s.lo, 'hi': s.hi, 'ops': concrete}})

    def run(s):
        t0 = time.time()
        eng = Engine(s.P, s.inst, Limits(loop=80, rec=40, steps=3000000), s.solver, s.on_path, {})
        s.eng = eng

        def on_ret(e, st):
            e._cur_state = st
            return s.on_return(e, st)
        eng.on_return = on_ret
        cbs = [0]

        def cb(e, st, kind, args):
            cbs[0] += 1
        s.inst.cb_hook = cb
        st = State()
        st.aux.update({'pos': -1, 'vals': [], 'now': None, 'syms': [], 'q': None, 'resume': False})
        new = s.inst.find(s.P, 'seg::tree', 'new', [None], 'SegRange')
        try:
            key = (id(s.P), s.lo, s.hi)
            cached = NEW_CACHE.get(key)
            if cached is not None and cached[0] is not None:
                # SegExpTree::new(domain) was executed from its MIR once in this process; its (immutable) result is reused
                st.heap.update(cached[1])
                st.heap['tree'] = cached[0]
                eng.fns_seen.update(cached[2])
                r = s.next_op(eng, st)
                if r == 'continue':
                    s.explore(eng, st)
                else:
                    eng.finish_path(st, 'ok')
            else:
                eng.push_call(st, new, [[bv(s.lo, 32), bv(s.hi, 32)]], None, None, None)
                s.explore(eng, st)
        except Unsupported as ex:
            s.res['unsupported'] = str(ex)
        s.res['callbacks'] = cbs[0]
        s.res['stats'] = eng.stats
        s.res['fns'] = sorted(eng.fns_seen)
        s.res['query_s'] = s.qtime
        s.res['wall_s'] = time.time() - t0
        return s.res

    def explore(s, eng, st0):
        """Engine.explore with support for states forked inside on_return (they resume in `resume`)"""
        orig_run = eng.run

        def run(st):
            eng._cur_state = st
            if st.aux.get('resume') and not st.frames:
                r = s.resume(eng, st)
                if r is None:
                    eng.finish_path(st, 'ok')
                    return None
                if isinstance(r, list):
                    return r
            return orig_run(st)
        eng.run = run
        eng.explore(st0)


def run_seg_job(job):
    from .jobs import program
    steps_mod.TAG_FILTER = job.get('tags')
    out = []
    try:
        P = program(job['mir'])
        for tpl in job['templates']:
            r = SegHist(P, job['lo'], job['hi'], tpl, job.get('timeout_ms', 60000)).run()
            out.append(r)
    except Exception as ex:      # noqa
        import traceback
        out.append({'kind': 'seg', 'template': job.get('templates'), 'error': repr(ex), 'trace': traceback.format_exc()[-1500:]})
    return out
