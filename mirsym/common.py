"""Scratch copies of /repo, MIR dump, native replay, evidence and known-findings plumbing shared by all checks."""
import atexit
import hashlib
import json
import os
import shutil
import signal
import subprocess
import sys
import time

VERIF = os.path.dirname(os.path.dirname(os.path.abspath(__file__)))
REPO = os.environ.get('VERIF_REPO', '/repo')
GUARD = 'ishape_rust_itree_verif'
_scratch = None


def log(*a):
    print(*a, file=sys.stderr, flush=True)


def scratch():
    """fresh scratch directory outside /repo, /verif and /tmp; removed at exit"""
    global _scratch
    if _scratch is None:
        base = os.environ.get('VERIF_SCRATCH_BASE', '/var/tmp')
        os.makedirs(base, exist_ok=True)
        _scratch = os.path.join(base, f'itree-verif.{os.getpid()}')
        shutil.rmtree(_scratch, ignore_errors=True)
        # scratch directories of runs that were killed (their atexit handler never ran): owner process no longer exists
        try:
            for d in os.listdir(base):
                if d.startswith('itree-verif.') and d.split('.')[-1].isdigit() and not os.path.exists(f'/proc/{d.split(".")[-1]}'):
                    shutil.rmtree(os.path.join(base, d), ignore_errors=True)
        except OSError:
            pass
        os.makedirs(_scratch)
        if not os.environ.get('VERIF_KEEP_SCRATCH'):
            atexit.register(lambda: shutil.rmtree(_scratch, ignore_errors=True))
    return _scratch


def repo_copy():
    """copy of /repo's current working tree (no target/, no .git)"""
    dst = os.path.join(scratch(), 'repo')
    if not os.path.isdir(dst):
        subprocess.run(['rsync', '-a', '--exclude', 'target', '--exclude', '.git', REPO + '/', dst + '/'], check=True)
    return dst


def cargo_env(extra_rustflags=''):
    env = dict(os.environ)
    env['CARGO_NET_OFFLINE'] = 'true'
    env['RUSTFLAGS'] = (extra_rustflags + ' ' + env.get('RUSTFLAGS', '')).strip()
    env.pop('RUSTUP_TOOLCHAIN', None)
    return env


def dump_mir():
    """regenerate the MIR text from the working tree copy; returns (path, sha256, seconds)"""
    t0 = time.time()
    rc = repo_copy()
    out = os.path.join(scratch(), 'mir.txt')
    env = cargo_env()
    env['CARGO_TARGET_DIR'] = os.path.join(scratch(), 'target-mir')
    cmd = ['cargo', '+nightly', 'rustc', '--offline', '--lib', '--', '-Zunpretty=mir', '-C', 'debug-assertions=on', '-C', 'overflow-checks=on']
    with open(out, 'w') as f:
        p = subprocess.run(cmd, cwd=rc, env=env, stdout=f, stderr=subprocess.PIPE, text=True)
    if p.returncode != 0 or os.path.getsize(out) < 1000:
        log(p.stderr[-3000:])
        raise RuntimeError('MIR dump failed')
    h = hashlib.sha256(open(out, 'rb').read()).hexdigest()
    return out, h, time.time() - t0


# ---------------------------------------------------------------------------------------------- native replay
_replay_bins = {}


def build_replay(profile='dev'):
    if profile in _replay_bins:
        return _replay_bins[profile]
    rc = repo_copy()
    d = os.path.join(scratch(), 'replay')
    if not os.path.isdir(d):
        shutil.copytree(os.path.join(VERIF, 'replay'), d)
        txt = open(os.path.join(d, 'Cargo.toml.in')).read().replace('@REPO@', rc)
        open(os.path.join(d, 'Cargo.toml'), 'w').write(txt)
        lock = os.path.join(rc, 'Cargo.lock')
    env = cargo_env(f'--cfg {GUARD}')
    env['CARGO_TARGET_DIR'] = os.path.join(scratch(), 'target-replay')
    cmd = ['cargo', 'build', '--offline', '--quiet'] + (['--release'] if profile == 'release' else [])
    p = subprocess.run(cmd, cwd=d, env=env, stdout=subprocess.PIPE, stderr=subprocess.PIPE, text=True)
    if p.returncode != 0:
        log(p.stderr[-4000:])
        raise RuntimeError('replay build failed')
    b = os.path.join(env['CARGO_TARGET_DIR'], 'release' if profile == 'release' else 'debug', 'itree_replay')
    _replay_bins[profile] = b
    return b


def history_to_text(h, fuse=None):
    lines = [f"kind {h['kind']}", f"capacity {h.get('capacity', 0)}"]
    if fuse is not None:
        lines.append(f'fuse {fuse}')
    if h['kind'] == 'seg':
        lines.append(f"op domain lo={h['lo']} hi={h['hi']}")
    for op in h['ops']:
        d = dict(op)
        if h['kind'] == 'seg' and d['op'] == 'query':
            d['full'] = 1 if d.pop('mode', 'full') == 'full' else 0
        lines.append('op ' + d['op'] + ''.join(f' {k}={v}' for k, v in d.items() if k != 'op'))
    return '\n'.join(lines) + '\n'


def run_replay(history, profile='dev', fuse=None, timeout=20, dump=False):
    """run a concrete history natively; returns dict(findings=[(op#, tag, detail)], crashed=signal|None, last_begin, timed_out)"""
    b = build_replay(profile)
    path = os.path.join(scratch(), f'hist.{os.getpid()}.{time.time_ns()}.txt')
    open(path, 'w').write(history_to_text(history, fuse))
    env = dict(os.environ)
    if dump:
        env['VERIF_DUMP'] = '1'
    try:
        p = subprocess.run([b, path], stdout=subprocess.PIPE, stderr=subprocess.PIPE, text=True, timeout=timeout, env=env)
        out, err, rc, to = p.stdout, p.stderr, p.returncode, False
    except subprocess.TimeoutExpired as ex:
        out = (ex.stdout or b'').decode() if isinstance(ex.stdout, bytes) else (ex.stdout or '')
        err, rc, to = '', None, True
    os.unlink(path)
    res = {'findings': [], 'crashed': None, 'last_begin': None, 'timed_out': to, 'profile': profile, 'stderr_tail': err[-600:]}
    for line in out.splitlines():
        parts = line.split(' ', 3)
        if parts[0] == 'SNAP':
            res['snap'] = line
        if parts[0] == 'BEGIN':
            res['last_begin'] = (int(parts[1]), parts[2])
        elif parts[0] == 'MISMATCH':
            res['findings'].append((int(parts[1]), parts[2], parts[3] if len(parts) > 3 else ''))
        elif parts[0] == 'PANIC':
            at = res['last_begin'][0] if res['last_begin'] else -1
            res['findings'].append((at, 'C10:panic', line[6:]))
    if rc is not None and rc < 0:
        res['crashed'] = signal.Signals(-rc).name
        at = res['last_begin'][0] if res['last_begin'] else -1
        res['findings'].append((at, 'C10:abort', f'{res["crashed"]}: {err.strip().splitlines()[-1][:300] if err.strip() else ""}'))
    if to:
        at = res['last_begin'][0] if res['last_begin'] else -1
        res['findings'].append((at, 'C10:hang', f'no result within {timeout}s'))
    return res


# ---------------------------------------------------------------------------------------------- findings / evidence
def load_known():
    p = os.path.join(VERIF, 'known_findings.json')
    if not os.path.exists(p):
        return {'known': [], 'fixed': []}
    return json.load(open(p))


def evidence_dir():
    """/verif/evidence, or a private directory when experimenting against a modified tree (VERIF_EVIDENCE_DIR)"""
    d = os.environ.get('VERIF_EVIDENCE_DIR') or os.path.join(VERIF, 'evidence')
    os.makedirs(d, exist_ok=True)
    return d


def write_evidence(pid, ev):
    p = os.path.join(evidence_dir(), pid + '.json')
    tmp = p + '.tmp'
    json.dump(ev, open(tmp, 'w'), indent=1, default=str)
    os.replace(tmp, p)
    return p


# ---------------------------------------------------------------------------------------------- guided reachability search
STEP_TO_HISTORY_OP = {
    'delete_by_index': 'pred_delete', 'value_by_index': 'pred_read', 'value_by_index_mut': 'pred_write',
    'index_after': 'pred_after', 'index_before': 'pred_before',
}


def canonical(pre, timed):
    nodes = {n['slot']: n for n in pre['nodes']}

    def go(i, depth=0):
        if i == 0xFFFFFFFF or i not in nodes or depth > len(nodes):
            return '-'
        n = nodes[i]
        return f"({n['key']},{n.get('exp', 0) if timed else 0},{'R' if n['red'] else 'B'}{go(n['left'], depth + 1)}{go(n['right'], depth + 1)})"
    return go(pre['root'])


def in_tree_nodes(pre):
    nodes = {n['slot']: n for n in pre['nodes']}
    out = []

    def go(i, depth=0):
        if i == 0xFFFFFFFF or i not in nodes or depth > len(nodes):
            return
        out.append(nodes[i])
        go(nodes[i]['left'], depth + 1)
        go(nodes[i]['right'], depth + 1)
    go(pre['root'])
    return out


def guided_history(kind, opname, viol, limit=400000):
    """search natively for a public-API history reaching a state isomorphic to the counterexample's pre-state, then append the
    failing operation with the counterexample's arguments.  Returns a history dict or None."""
    pre, args = viol['pre'], viol.get('args', {})
    timed = kind == 'key'
    tgt = in_tree_nodes(pre)
    keys = sorted({n['key'] for n in tgt})
    lines = [f'kind {kind}', f'canon {canonical(pre, timed)}', f'limit {limit}']
    for n in tgt:
        lines.append(f"entry {n['key']} {n.get('exp', 0) if timed else 0}")
    # helper entries (removed again on the way): enable shapes that only arise after deletions
    helpers = []
    cands = [k for k in ([keys[0] - 1, keys[-1] + 1] if keys else [1]) if 0 <= k <= 255 and k not in keys]
    for a, b in zip(keys, keys[1:]):
        if b - a > 1:
            cands.append((a + b) // 2)
    for k in cands[:4]:
        helpers.append(k)
        lines.append(f'entry {k} 0')
    if timed:
        t_op = args.get('t', 0)
        times = sorted({0, t_op} | {n.get('exp', 0) for n in tgt if n.get('exp', 0) <= t_op})
        lines.append('times ' + ' '.join(str(t) for t in times))
    path = os.path.join(scratch(), f'search.{time.time_ns()}.txt')
    open(path, 'w').write('\n'.join(lines) + '\n')
    b = build_replay('release')
    try:
        p = subprocess.run([b, '--search', path], stdout=subprocess.PIPE, stderr=subprocess.PIPE, text=True, timeout=300)
    except subprocess.TimeoutExpired:
        return None
    found = [l for l in p.stdout.splitlines() if l.startswith('FOUND')]
    if not found:
        return None
    ops = []
    for tok in found[0].split()[1:]:
        f = tok.split(':')
        if f[0] == 'ins':
            k = int(f[1])
            if timed:
                ops.append({'op': 'insert', 'k': k, 'x': int(f[2]), 'v': k ^ 0x55, 't': int(f[3])})
            else:
                ops.append({'op': 'insert', 'k': k, 'v': k ^ 0x55})
        elif f[0] == 'del':
            ops.append({'op': 'delete', 'k': int(f[1])})
        elif f[0] == 'get':
            ops.append({'op': 'get_value', 'k': int(f[1]), 'x': 0, 't': int(f[2])})
    # the failing operation
    hop = STEP_TO_HISTORY_OP.get(opname, opname)
    last = {'op': hop}
    if 'h' in args:
        byslot = {n['slot']: n for n in pre['nodes']}
        if args['h'] not in byslot:
            return None
        last['k'] = byslot[args['h']]['key']
    for a in ('k', 'x', 'v', 't', 'd', 'p9', 'nv'):
        if a in args:
            last[a] = args[a]
    if 'p' in args:
        last['k'] = args['p']
    if opname == 'is_part_of_the_tree':
        return None
    ops.append(last)
    return {'kind': kind, 'capacity': 0, 'ops': ops}
