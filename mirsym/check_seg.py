"""Driver for the segment-tree histories on the MIR executor (concrete bucket ranges per job, symbolic expirations / times /
partial consumption).  Serves C03, C16 and the segment-tree parts of C12, C15, C10."""
import itertools
import os
import time
import multiprocessing as mp

from . import common, plan
from .seg import run_seg_job

# bucket ranges on the 32-point domain [0,31]: single points at both edges and inside, bucket-boundary pairs, aligned and unaligned
# power-of-two blocks, 16-wide unaligned (worst case tiling), nearly everything, everything
FAMILY32 = [(0, 0), (5, 5), (31, 31), (0, 31), (0, 15), (16, 31), (3, 18), (5, 6), (15, 16), (1, 30), (7, 24), (30, 31), (0, 1), (12, 19), (8, 15), (17, 17)]
QUERIES32 = [(0, 0), (5, 5), (31, 31), (0, 31), (4, 6), (15, 16), (16, 31), (2, 29), (17, 17), (19, 31)]
# a negative, non-power-of-two domain of 128 points (bucket width 4)
DOM128 = (-50, 77)
FAMILY128 = [(-50, -50), (-50, 77), (-47, -46), (-3, 13), (77, 77), (10, 41), (-50, 13), (14, 77)]
QUERIES128 = [(-50, -50), (77, 77), (-50, 77), (-2, -1), (12, 14), (40, 44)]


# a domain whose last bucket is only partly inside the domain (101 points, bucket width 4, 26 buckets)
DOM101 = (0, 100)
FAMILY101 = [(0, 0), (100, 100), (0, 100), (97, 100), (50, 60), (96, 99)]
QUERIES101 = [(100, 100), (0, 100), (96, 99), (0, 3)]


def templates(pid, tier, fam, qs, whole):
    out = []
    deep = tier == 'thorough'
    f2 = fam if deep else fam[:8] + fam[-2:]
    for v1 in fam:
        for v2 in ([v1] + f2):
            for q in qs:
                # query q partially consumed (symbolic number of items), then the whole domain fully consumed (C03 twice, C16 once)
                out.append([('insert', v1[0], v1[1], 1), ('insert', v2[0], v2[1], 2), ('query', q[0], q[1], 'partial'), ('query', whole[0], whole[1], 'full')])
                if deep or q in qs[:4]:
                    out.append([('insert', v1[0], v1[1], 1), ('insert', v2[0], v2[1], 2), ('query', whole[0], whole[1], 'full'), ('query', q[0], q[1], 'full')])
    for v1 in fam:
        for q in qs[:5]:
            # clear in the middle: the cleared tree answers like a new one, also when the clock restarts earlier
            out.append([('insert', v1[0], v1[1], 1), ('query', q[0], q[1], 'full'), ('clear',), ('query', whole[0], whole[1], 'full'),
                        ('insert', q[0], q[1], 3), ('query', v1[0], v1[1], 'full')])
    if pid in ('C12',):
        out = [t for t in out if any(o[0] == 'clear' for o in t)]
    if pid in ('C15',):
        out = [[('insert', v[0], v[1], 1), ('query', q[0], q[1], 'full')] for v in fam for q in qs]
    if pid == 'C10' and tier == 'quick':
        out = out[::7]          # the memory-safety channel of the same histories; C03 / C16 run the full family
    return out


def all_pairs_32():
    """every (insert range, query range) pair on the 32-point domain: 528 x 528, one insert + one fully consumed query"""
    rs = [(a, b) for a in range(32) for b in range(a, 32)]
    return [[('insert', v[0], v[1], 1), ('query', q[0], q[1], 'full')] for v in rs for q in rs]


# C14 through the public API: concrete domains around the 16/17-point threshold, powers of two +-1, negative and full-width
C14_DOMAINS = [(0, 14), (0, 15), (0, 16), (5, 21), (-8, 7), (-8, 8), (0, 31), (0, 32), (0, 100), (-50, 77), (0, 127), (0, 128), (-1000, 1000),
               (-65536, 65535), (-65536, 65536), (0, 2147483647), (-2147483648, 2147483647), (-2147483648, -2147483632), (2147483631, 2147483647)]


def _run(job):
    return run_seg_job(job)


def run(pid, tier, seed, procs=None):
    t0 = time.time()
    mir, mirhash, mir_s = common.dump_mir()
    tags = {'C03': ['C03:'], 'C16': ['C16:'], 'C12': ['C12:', 'C03:'], 'C15': ['C15:', 'C03:'], 'C10': ['C10:'], 'C14': ['C14:', 'C03:']}[pid]
    tpls = [((0, 31), t) for t in templates(pid, tier, FAMILY32, QUERIES32, (0, 31))] if pid != 'C14' else []
    if pid == 'C14':
        for lo, hi in C14_DOMAINS:
            mid = lo + (hi - lo) // 2
            tpls.append(((lo, hi), [('insert', lo, lo, 1), ('insert', hi, hi, 2), ('query', lo, lo, 'full'), ('query', hi, hi, 'full'),
                                    ('insert', lo, hi, 3), ('query', mid, mid, 'full')]))
    if pid in ('C03', 'C16', 'C10'):
        tpls += [(DOM128, t) for t in templates(pid, tier, FAMILY128, QUERIES128, DOM128)]
        tpls += [(DOM101, t) for t in templates(pid, tier, FAMILY101, QUERIES101, DOM101)]
    if pid in ('C03', 'C15') and tier == 'thorough':
        tpls += [((0, 31), t) for t in all_pairs_32()]
    # group templates into jobs of ~40 per domain
    jobs = []
    for dom, group in itertools.groupby(sorted(tpls, key=lambda x: x[0]), key=lambda x: x[0]):
        g = [t for _, t in group]
        size = 40 if len(g) < 20000 else 400
        for i in range(0, len(g), size):
            jobs.append({'mir': mir, 'lo': dom[0], 'hi': dom[1], 'templates': g[i:i + size], 'tags': tags, 'timeout_ms': 60000})
    common.log(f'[{pid}] segment tree: {len(tpls)} templates in {len(jobs)} jobs')
    procs = procs or min(16, os.cpu_count() or 1)
    ctx = mp.get_context('fork')
    results = []
    with ctx.Pool(procs, maxtasksperchild=4) as pool:
        for r in pool.imap_unordered(_run, jobs, chunksize=1):
            results += r
    mine = lambda tag: any(tag.startswith(t) for t in tags) or tag.startswith('C10:')
    inconclusive, confirmed, lines = [], [], []
    post_tags = {}
    paths = obl = queries = 0
    cpu = 0.0
    fns = set()
    samples = []
    seen_keys = set()
    for r in results:
        if pid == 'C14' and 'error' not in r:
            lo, hi = r['domain']
            built = not r.get('new_is_none')
            want = hi - lo + 1 > 16
            post_tags['C14:construction-some-iff-more-than-16-points'] = post_tags.get('C14:construction-some-iff-more-than-16-points', 0) + 1
            if built != want:
                h = {'kind': 'seg', 'lo': lo, 'hi': hi, 'ops': []}
                nat = common.run_replay(h, 'dev')
                natively_none = any(f[1] == 'C14:builds' for f in nat['findings'])
                if natively_none == (not built):
                    confirmed.append({'key': f'C14:construction|seg|new|{"none" if not built else "some"}', 'tag': 'C14:construction-some-iff-more-than-16-points',
                                      'history': h, 'native': [f'SegExpTree::new([{lo},{hi}]) is {"None" if not built else "Some"}; {hi - lo + 1} points']})
                else:
                    inconclusive.append(f'C14 construction verdict for [{lo},{hi}] differs between executor and native')
        if 'error' in r:
            inconclusive.append(f'seg job error {r["error"][:300]} {r.get("trace", "")[-300:]}')
            continue
        if r.get('unsupported'):
            inconclusive.append(f'seg template {r["template"]}: unsupported: {r["unsupported"][:200]}')
        if r.get('unknown'):
            inconclusive.append(f'seg template {r["template"]}: solver unknown')
        paths += r['paths']; obl += r['obligations']; queries += r['queries']; cpu += r.get('wall_s', 0)
        fns.update(r.get('fns', []))
        for k, v in r['post_tags'].items():
            if mine(k):
                post_tags[k] = post_tags.get(k, 0) + v
        if len(samples) < 3 and r['paths']:
            samples.append({'domain': r['domain'], 'template (concrete ranges; expirations, times, consumed items symbolic)': r['template'], 'paths': r['paths'], 'obligations': r['obligations']})
        for v in r['violations']:
            if not mine(v['tag']):
                continue
            key = f'{v["tag"]}|seg|{v["history"]["ops"][v["at_op"]]["op"] if v["at_op"] < len(v["history"]["ops"]) else "?"}'
            if key in seen_keys and len(confirmed) >= 3:
                continue
            h = v['history']
            nat = [common.run_replay(h, 'dev'), common.run_replay(h, 'release')]
            hit = [(p['profile'], f) for p in nat for f in p['findings'] if mine(f[1])]
            if hit:
                seen_keys.add(key)
                confirmed.append({'key': key, 'tag': v['tag'], 'history': h, 'native': [f'{prof}: op#{f[0]} {f[1]} {f[2]}' for prof, f in hit][:4]})
            else:
                inconclusive.append(f'seg counterexample for {v["tag"]} does not reproduce natively (encoding suspect): {h}')
    known = {k['key']: k for k in common.load_known().get('known', []) if k['property'] == pid}
    new = []
    done = set()
    for c in confirmed:
        if c['key'] in done:
            continue
        done.add(c['key'])
        if c['key'] in known:
            lines.append(f'KNOWN-FINDING: property={pid} {known[c["key"]]["what"]}')
        else:
            new.append(c)
    import json
    rdir = os.path.join(common.evidence_dir(), 'replay')
    os.makedirs(rdir, exist_ok=True)
    for i, c in enumerate(new):
        path = os.path.join(rdir, f'{pid}-seg-{i}.json')
        json.dump({'property': pid, 'tag': c['tag'], 'engine': 'native-replay', 'history': c['history'], 'native': c['native']}, open(path, 'w'), indent=1)
        lines.append(f'VIOLATION property={pid} replay={path}')
    cov = {
        'seg_templates': len(tpls), 'seg_paths': paths, 'seg_obligations': obl, 'seg_final_queries': queries, 'seg_cpu_s': round(cpu, 1),
        'seg_post_conditions_discharged': post_tags, 'seg_functions_encoded': sorted(fns),
        'seg_bounds': 'domains [0,31] (bucket = coordinate), [-50,77] (bucket width 4) and [0,100] (partial last bucket); <= 2 stored values (+1 after clear), <= 2 queries per history; '
                      'bucket ranges CONCRETE per template, enumerated from a fixed family' + (' plus all 528x528 (insert range, query range) pairs for one value and one query' if tier == 'thorough' and pid in ('C03', 'C15') else '')
                      + '; expirations, query times (non-decreasing) and the number of items consumed from a partially consumed query are symbolic (8 bit) and solver-decided',
        'mir_sha256': mirhash,
    }
    for m in inconclusive[:8]:
        common.log(f'[{pid}] INCONCLUSIVE: {m}')
    common.log(f'[{pid}] seg: templates={len(tpls)} paths={paths} obligations={obl} confirmed={len(confirmed)} new={len(new)} inconclusive={len(inconclusive)} wall={time.time()-t0:.0f}s')
    return {'rc': 1 if new else (2 if inconclusive else 0), 'lines': lines, 'inconclusive': inconclusive, 'coverage': cov, 'paths': paths, 'obligations': obl,
            'confirmed': len(confirmed), 'violations': len(new), 'samples': samples, 'wall_s': time.time() - t0}
