"""Bounded-history harnesses: the real `new(capacity)` followed by a fixed sequence of public operations with fully
symbolic arguments; every result is compared with a reference model (a symbolic association list), and the
representation invariant is checked after every operation.  A satisfying assignment is a concrete public-API
history, which `replay` runs natively against the real crate before anything is reported."""
import time
import z3

from .engine import (Engine, State, Limits, Unsupported, Ref, VecVal, UNIT, bv, b_and, b_or, b_not, b_eq, ite, merge,
                     TRUE, FALSE, EMPTY32, is_enum)
from .trees import INSTANCES, View, inv_closed, conj, KW, VW, EW, k2
from .steps import STRUCT, model_int, final_query, describe_value

TREE = Ref(('heap', 'tree'))


# ------------------------------------------------------------------------------------------ reference model
class RefModel:
    """entries: list of dicts(k, x, v, present) of z3 terms"""

    def __init__(s, entries=None):
        s.e = entries or []

    def live(s, e, t):
        c = e['present']
        if t is not None and e['x'] is not None:
            c = b_and(c, z3.UGT(e['x'], t))
        return c

    def lookup(s, key, t=None):
        found, val = FALSE, bv(0, VW)
        for e in s.e:
            hit = b_and(s.live(e, t), b_eq(e['k'], key))
            val = ite(hit, e['v'], val)
            found = b_or(found, hit)
        return found, val

    def best(s, cand, greater=True):
        """among entries with cand(e) true, the one with the greatest (smallest) key -> (exists, key, val)"""
        have, key, val = FALSE, bv(0, KW), bv(0, VW)
        for e in s.e:
            c = cand(e)
            better = b_and(c, b_or(b_not(have), z3.UGT(e['k'], key) if greater else z3.ULT(e['k'], key)))
            key = ite(better, e['k'], key)
            val = ite(better, e['v'], val)
            have = b_or(have, c)
        return have, key, val

    def pred(s, bound, t=None):
        return s.best(lambda e: b_and(s.live(e, t), bound(e['k'])))

    def count(s, t=None):
        c = bv(0, 64)
        for e in s.e:
            c = c + z3.If(s.live(e, t), bv(1, 64), bv(0, 64)) if not z3.is_true(s.live(e, t)) else c + 1
        return c

    def any(s, t=None):
        return b_or(*[s.live(e, t) for e in s.e]) if s.e else FALSE

    def with_entry(s, k, x, v):
        return RefModel(s.e + [{'k': k, 'x': x, 'v': v, 'present': TRUE}])

    def without_key(s, key):
        return RefModel([dict(e, present=b_and(e['present'], b_not(b_eq(e['k'], key)))) for e in s.e])

    def with_value(s, key, nv):
        return RefModel([dict(e, v=ite(b_and(e['present'], b_eq(e['k'], key)), nv, e['v'])) for e in s.e])


# ------------------------------------------------------------------------------------------ op scripts
def entry(P, mod, name, nargs, self_ty=None):
    c = [f for f in P.find(mod, name) if f.nargs == nargs and (self_ty is None or self_ty in f.locals.get('_1', ''))]
    if len(c) != 1:
        raise Unsupported(f'entry {mod}::{name}/{nargs}: {c}')
    return c[0]


class Hist:
    """one exploration of a template"""

    def __init__(s, P, kind, template, capacity, timeout_ms, seed, max_violations=4, fixed=None):
        s.P, s.kind, s.template, s.capacity = P, kind, template, capacity
        s.inst = INSTANCES[kind]()
        s.mod = kind + '::tree'
        s.timeout_ms = timeout_ms
        s.res = {'kind': kind, 'template': template, 'capacity': capacity, 'paths': 0, 'queries': 0, 'obligations': 0, 'unknown': 0,
                 'violations': [], 'n_violations': 0, 'by_kind': {}, 'post_tags': {}, 'statuses': {}, 'samples': [], 'vacuous_paths': 0}
        s.solver = z3.SolverFor('QF_BV')
        s.solver.set('random_seed', seed)
        s.max_violations = max_violations
        s.qtime = 0.0
        s.fixed = fixed          # translator validation: concrete arguments per operation
        s.final_trees = []

    # ---- helpers
    def sym(s, st, name, w):
        i = st.aux['pos']
        if s.fixed is not None:
            v = bv(s.fixed[i].get(name, 0), w)
        else:
            v = z3.BitVec(f'{name}_{i}', w)
        st.aux['args'] = st.aux['args'] + [(i, name, v)]
        return v

    def assume(s, eng, st, cond):
        if z3.is_true(cond):
            return True
        if not eng.feasible(cond):
            return False
        eng.solver.add(cond)
        st.event(('assume', cond))
        return True

    def post(s, eng, st, tag, cond):
        i = st.aux['pos']
        s.res['post_tags'][tag] = s.res['post_tags'].get(tag, 0) + 1
        eng.oblige(st, cond, 'post', f'{tag}@{i}')

    def structure(s, eng, st):
        tree = st.heap.get('tree')
        if tree is None:
            return
        v = View(s.inst, tree)
        G, it, extra = inv_closed(v)
        s.post(eng, st, 'C02:inv', z3.simplify(conj(G, STRUCT)))
        s.post(eng, st, 'C11:accounting', z3.simplify(conj(G, ['accounting'])))
        # slot accounting against the reference: number of in-tree slots >= number of present entries is not required
        # (expired entries may linger); growth bound: buffer length changes only via Pool::reserve (checked by the step harness)

    def time_arg(s, eng, st):
        t = s.sym(st, 't', EW)
        now = st.aux['now']
        if now is not None:
            if not s.assume(eng, st, z3.UGE(t, now)):
                return None
        st.aux['now'] = t
        return t

    # ---- scripts: start(op) -> (fn, args) or None (infeasible) ; done(op, result) -> next (fn,args) | None
    def start(s, eng, st, op):
        kind = s.kind
        ref = st.aux['ref']
        P = s.P
        A = st.aux
        if kind == 'key':
            if op in ('insert', 'insert_asc'):
                t = s.time_arg(eng, st)
                if t is None:
                    return None
                k = s.sym(st, 'k', KW); x = s.sym(st, 'x', EW); v = s.sym(st, 'v', VW)
                found, _ = ref.lookup(k, t)
                pre = z3.And(z3.UGE(x, t), z3.Not(found))
                if op == 'insert_asc':
                    pre = z3.And(pre, z3.UGT(x, t))
                    if ref.e:
                        pre = z3.And([pre, z3.UGT(k, ref.e[-1]['k'])] + [z3.UGT(e['x'], t) for e in ref.e])
                if not s.assume(eng, st, pre):
                    return None
                A['cur'] = {'t': t, 'k': k, 'x': x, 'v': v}
                return entry(P, s.mod, 'insert', 4), [TREE, [k, x], v, t]
            if op in ('first_less', 'first_less_or_equal', 'first_less_or_equal_by'):
                t = s.time_arg(eng, st)
                if t is None:
                    return None
                d = s.sym(st, 'd', VW)
                if op.endswith('_by'):
                    p9 = s.sym(st, 'p9', KW + 1)
                    A['cur'] = {'t': t, 'd': d, 'p9': p9}
                    return entry(P, s.mod, op, 4), [TREE, t, d, ['closure', p9]]
                k = s.sym(st, 'k', KW); x = s.sym(st, 'x', EW)
                A['cur'] = {'t': t, 'd': d, 'k': k, 'x': x}
                return entry(P, s.mod, op, 4), [TREE, t, d, [k, x]]
            if op == 'get_value':
                t = s.time_arg(eng, st)
                if t is None:
                    return None
                k = s.sym(st, 'k', KW); x = s.sym(st, 'x', EW)
                A['cur'] = {'t': t, 'k': k, 'x': x}
                return entry(P, s.mod, op, 3), [TREE, t, [k, x]]
            if op == 'into_ordered_vec':
                t = s.time_arg(eng, st)
                if t is None:
                    return None
                A['cur'] = {'t': t}
                # number of physically stored entries right before the export (C19 is stated relative to stored entries)
                from .trees import closed_in_tree
                v0 = View(s.inst, st.heap['tree'])
                it0, _, _ = closed_in_tree(v0)
                stored = bv(0, 64)
                for f in it0[1:]:
                    stored = stored + z3.If(f, bv(1, 64), bv(0, 64)) if isinstance(f, z3.ExprRef) and not z3.is_true(f) and not z3.is_false(f) else (stored + 1 if z3.is_true(f) else stored)
                A['cur']['stored'] = stored
                tree = st.heap.pop('tree')
                return entry(P, 'key::array', 'into_ordered_vec', 2, 'KeyExpTree'), [tree, t]
        else:
            if op in ('insert', 'insert_asc'):
                k = s.sym(st, 'k', KW); v = s.sym(st, 'v', VW)
                found, _ = ref.lookup(k)
                pre = z3.Not(found)
                if op == 'insert_asc' and ref.e:
                    pre = z3.And(pre, z3.UGT(k, ref.e[-1]['k']))
                if not s.assume(eng, st, pre):
                    return None
                A['cur'] = {'k': k, 'v': v}
                if kind == 'map':
                    return entry(P, s.mod, 'insert', 3), [TREE, k, v]
                return entry(P, s.mod, 'insert', 2), [TREE, [k, v]]
            if op in ('delete', 'get_value', 'first_index_less', 'pred_read', 'pred_write', 'pred_delete', 'pred_after', 'pred_before', 'pred_insert_read'):
                k = s.sym(st, 'k', KW)
                A['cur'] = {'k': k}
                if op == 'pred_insert_read':
                    A['cur']['k2'] = s.sym(st, 'k2', KW)
                    A['cur']['v2'] = s.sym(st, 'v2', VW)
                if op.startswith('pred_'):
                    A['phase'] = 0
                    if op == 'pred_write':
                        A['cur']['nv'] = s.sym(st, 'nv', VW)
                name = {'delete': 'delete', 'get_value': 'get_value'}.get(op, 'first_index_less')
                if kind == 'map':
                    return entry(P, s.mod, name, 2), [TREE, k]
                st.heap[f'argkey{A["pos"]}'] = k
                return entry(P, s.mod, name, 2), [TREE, Ref(('heap', f'argkey{A["pos"]}'))]
            if op == 'first_index_less_by':
                p9 = s.sym(st, 'p9', KW + 1)
                A['cur'] = {'p9': p9}
                return entry(P, s.mod, op, 2), [TREE, ['closure', p9]]
        if op == 'clear':
            A['cur'] = {}
            return entry(P, s.mod, 'clear', 1), [TREE]
        if op == 'is_empty':
            A['cur'] = {}
            return entry(P, s.mod, 'is_empty', 1), [TREE]
        raise Unsupported('history op ' + op)

    def done(s, eng, st, op):
        kind = s.kind
        A = st.aux
        ref = A['ref']
        cur = A['cur']
        r = st.result
        pid = {'map': 'C04', 'set': 'C05', 'key': 'C01'}[kind]
        if kind == 'key':
            t = cur.get('t')
            if op in ('insert', 'insert_asc'):
                A['ref'] = ref.with_entry(cur['k'], cur['x'], cur['v'])
            elif op in ('first_less', 'first_less_or_equal', 'first_less_or_equal_by'):
                if op == 'first_less':
                    bound = lambda k: z3.ULT(k, cur['k'])
                elif op == 'first_less_or_equal':
                    bound = lambda k: z3.ULE(k, cur['k'])
                else:
                    bound = lambda k: z3.ULE(k2(k), cur['p9'])
                ex, key, val = ref.pred(bound, t)
                s.post(eng, st, 'C01:predecessor-result', r == ite(ex, val, cur['d']))
            elif op == 'get_value':
                found, val = ref.lookup(cur['k'], t)
                f = [(r[1] == 1) == found]
                if r[2]:
                    f.append(z3.Implies(found, r[2][0] == val))
                s.post(eng, st, 'C06:exact-lookup', z3.And(f))
            elif op == 'into_ordered_vec':
                ents = ref.e
                f = [r.len == ref.count(t)] if isinstance(r, VecVal) else [FALSE]
                if isinstance(r, VecVal):
                    for i, e in enumerate(ents):
                        rank = bv(0, 64)
                        for j, e2 in enumerate(ents):
                            if j != i:
                                rank = rank + z3.If(z3.And(ref.live(e2, t), z3.ULT(e2['k'], e['k'])), bv(1, 64), bv(0, 64))
                        got = None
                        for q in range(len(r.cells) - 1, -1, -1):
                            got = r.cells[q] if got is None else ite(rank == q, r.cells[q], got)
                        if got is None:
                            f.append(z3.Not(ref.live(e, t)))
                        else:
                            f.append(z3.Implies(ref.live(e, t), z3.And(z3.ULT(rank, r.len), got == e['v'])))
                    s.post(eng, st, 'C19:returned-capacity-linear', z3.ULE(r.cap, 2 * cur['stored'] + 8))
                s.post(eng, st, 'C07:export-live-in-order', z3.And(f))
            if op == 'clear':
                A['ref'] = RefModel()
                A['now'] = None
            if op == 'is_empty':
                # only: a live entry exists => not empty  (expired entries may linger)
                now = A['now']
                if now is not None:
                    s.post(eng, st, 'C01:live-implies-not-empty', z3.Implies(ref.any(now), z3.Not(r)))
            if t is not None:
                pass
            return None
        # ---- map / set
        if op in ('insert', 'insert_asc'):
            A['ref'] = ref.with_entry(cur['k'], None, cur['v'])
        elif op == 'delete':
            A['ref'] = ref.without_key(cur['k'])
        elif op == 'get_value':
            found, val = ref.lookup(cur['k'])
            f = [(r[1] == 1) == found]
            if r[2]:
                got = eng.read(st, r[2][0])
                if kind == 'set':
                    f.append(z3.Implies(found, z3.And(got[0] == cur['k'], got[1] == val)))
                else:
                    f.append(z3.Implies(found, got == val))
            s.post(eng, st, pid + ':get', z3.And(f))
        elif op in ('first_index_less', 'first_index_less_by'):
            bound = (lambda k: z3.ULE(k, cur['k'])) if op == 'first_index_less' else (lambda k: z3.ULE(k2(k), cur['p9']))
            ex, key, val = ref.pred(bound)
            s.post(eng, st, 'C08:pred-handle-empty-iff-none', (r == EMPTY32) == z3.Not(ex))
        elif op == 'clear':
            A['ref'] = RefModel()
        elif op == 'is_empty':
            s.post(eng, st, pid + ':is_empty', r == z3.Not(ref.any()))
        elif op.startswith('pred_'):
            ph = A['phase']
            if ph == 0:
                ex, key, val = ref.pred(lambda k: z3.ULE(k, cur['k']))
                s.post(eng, st, 'C08:pred-handle-empty-iff-none', (r == EMPTY32) == z3.Not(ex))
                if not s.assume(eng, st, r != EMPTY32):
                    A['phase'] = 9
                    return None
                cur['h'] = r
                cur['pk'], cur['pv'] = key, val
                A['phase'] = 1
                if op == 'pred_insert_read':
                    found, _ = ref.lookup(cur['k2'])
                    if not s.assume(eng, st, z3.Not(found)):
                        A['phase'] = 9
                        return None
                    A['phase'] = 11
                    if kind == 'map':
                        return entry(s.P, s.mod, 'insert', 3), [TREE, cur['k2'], cur['v2']]
                    return entry(s.P, s.mod, 'insert', 2), [TREE, [cur['k2'], cur['v2']]]
                name = {'pred_read': 'value_by_index', 'pred_write': 'value_by_index_mut', 'pred_delete': 'delete_by_index',
                        'pred_after': 'index_after', 'pred_before': 'index_before'}[op]
                return entry(s.P, s.mod, name, 2), [TREE, r]
            if ph == 1:
                if op == 'pred_read':
                    got = eng.read(st, r)
                    if kind == 'set':
                        s.post(eng, st, 'C08:read-through-handle', z3.And(got[0] == cur['pk'], got[1] == cur['pv']))
                    else:
                        s.post(eng, st, 'C08:read-through-handle', got == cur['pv'])
                elif op == 'pred_write':
                    if kind == 'set':
                        eng.write(st, Ref(r.root, r.path + (('f', 1),)), cur['nv'])
                    else:
                        eng.write(st, r, cur['nv'])
                    A['ref'] = ref.with_value(cur['pk'], cur['nv'])
                elif op == 'pred_delete':
                    A['ref'] = ref.without_key(cur['pk'])
                else:
                    after = op == 'pred_after'
                    ex, key, val = ref.best(lambda e: b_and(e['present'], z3.UGT(e['k'], cur['pk']) if after else z3.ULT(e['k'], cur['pk'])), greater=not after)
                    s.post(eng, st, 'C09:neighbour-end-is-sentinel', (r == EMPTY32) == z3.Not(ex))
                    if not s.assume(eng, st, r != EMPTY32):
                        A['phase'] = 9
                        return None
                    cur['nk'], cur['nvv'] = key, val
                    A['phase'] = 2
                    return entry(s.P, s.mod, 'value_by_index', 2), [TREE, r]
                A['phase'] = 9
                return None
            if ph == 11:
                A['ref'] = ref.with_entry(cur['k2'], None, cur['v2'])
                A['phase'] = 12
                return entry(s.P, s.mod, 'value_by_index', 2), [TREE, cur['h']]
            if ph == 12:
                got = eng.read(st, r)
                if kind == 'set':
                    s.post(eng, st, 'C17:handle-stable-read', z3.And(got[0] == cur['pk'], got[1] == cur['pv']))
                else:
                    s.post(eng, st, 'C17:handle-stable-read', got == cur['pv'])
                A['phase'] = 13
                if kind == 'map':
                    return entry(s.P, s.mod, 'first_index_less', 2), [TREE, cur['pk']]
                st.heap[f'argkeyb{A["pos"]}'] = cur['pk']
                return entry(s.P, s.mod, 'first_index_less', 2), [TREE, Ref(('heap', f'argkeyb{A["pos"]}'))]
            if ph == 13:
                s.post(eng, st, 'C17:handle-stable-lookup', r == cur['h'])
                A['phase'] = 9
                return None
            if ph == 2:
                got = eng.read(st, r)
                if kind == 'set':
                    s.post(eng, st, 'C09:neighbour', z3.And(got[0] == cur['nk'], got[1] == cur['nvv']))
                else:
                    s.post(eng, st, 'C09:neighbour', got == cur['nvv'])
                A['phase'] = 9
                return None
        return None

    # ---- engine glue
    def on_return(s, eng, st):
        A = st.aux
        if A['pos'] < 0:
            st.heap['tree'] = st.result
            s.structure(eng, st)          # base case: the freshly constructed tree satisfies the invariant
            nxt = None
        else:
            op = s.template[A['pos']]
            nxt = s.done(eng, st, op)
            if nxt is None:
                s.structure(eng, st)
        if st.dead:
            return None
        while nxt is None:
            A['pos'] += 1
            if A['pos'] >= len(s.template):
                return None
            A['cur'] = None
            A['phase'] = 0
            nxt = s.start(eng, st, s.template[A['pos']])
            if nxt is None:
                A['vacuous'] = True
                return None
        fn, args = nxt
        eng.push_call(st, fn, args, None, None, None)
        return 'continue'

    def on_path(s, eng, st, status):
        res = s.res
        res['paths'] += 1
        res['statuses'][status] = res['statuses'].get(status, 0) + 1
        if s.fixed is not None:
            s.final_trees.append((status, st.heap.get('tree'), bool(st.aux.get('vacuous'))))
        if st.aux.get('vacuous'):
            res['vacuous_paths'] += 1
        events = st.event_list()
        for e in events:
            if e[0] == 'oblig':
                res['by_kind'][e[2]] = res['by_kind'].get(e[2], 0) + 1
        q0 = time.time()
        verdict, m, item, nd = final_query(events, [], s.timeout_ms)
        s.qtime += time.time() - q0
        res['queries'] += 1
        res['obligations'] += nd
        if verdict == 'unknown':
            res['unknown'] += 1
        elif verdict == 'sat':
            res['n_violations'] += 1
            if len(res['violations']) < s.max_violations:
                if item[2] == 'post':
                    tag, at = item[3].split('@')
                else:
                    tag, at = 'C10:' + item[2], str(st.aux['pos'])
                res['violations'].append({'tag': tag, 'desc': item[3], 'at_op': int(at), 'status': status,
                                          'history': s.concrete_history(m, st, int(at))})
        if len(res['samples']) < 2 and status == 'ok':
            mm = s.any_model(events)
            if mm is not None:
                res['samples'].append(s.concrete_history(mm, st, len(s.template) - 1))

    def any_model(s, events):
        sol = z3.SolverFor('QF_BV')
        for e in events:
            sol.add(e[1])
        if sol.check() == z3.sat:
            return sol.model()
        return None

    def concrete_history(s, m, st, upto):
        ops = []
        byop = {}
        for i, name, v in st.aux['args']:
            byop.setdefault(i, {})[name] = model_int(m, v)
        for i, op in enumerate(s.template[:upto + 1]):
            if i > st.aux['pos']:
                break
            ops.append(dict(op='insert' if op == 'insert_asc' else op, **byop.get(i, {})))
        return {'kind': s.kind, 'capacity': s.capacity, 'ops': ops}

    def run(s):
        t0 = time.time()
        lim = Limits(loop=40, rec=40, steps=200000000)       # bounded by the wall-clock deadline instead
        eng = Engine(s.P, s.inst, lim, s.solver, s.on_path, {})
        eng.on_return = s.on_return
        if getattr(s, 'max_s', None):
            eng.deadline = time.time() + s.max_s
        st = State()
        st.aux.update({'pos': -1, 'ref': RefModel(), 'now': None, 'args': [], 'cur': None, 'phase': 0})
        new = entry(s.P, s.mod, 'new', 1)
        try:
            eng.push_call(st, new, [bv(s.capacity, 64)], None, None, None)
            eng.explore(st)
        except Unsupported as ex:
            s.res['unsupported'] = str(ex)
        s.res['stats'] = eng.stats
        s.res['fns'] = sorted(eng.fns_seen)
        s.res['query_s'] = s.qtime
        s.res['wall_s'] = time.time() - t0
        return s.res


def run_history(P, kind, template, capacity=0, timeout_ms=120000, seed=0, max_s=None):
    h = Hist(P, kind, template, capacity, timeout_ms, seed)
    h.max_s = max_s
    return h.run()


def run_history_job(job):
    from .jobs import program
    from . import steps
    steps.TAG_FILTER = job.get('tags')
    try:
        r = run_history(program(job['mir']), job['kind'], job['template'], job.get('capacity', 0), job.get('timeout_ms', 120000), job.get('seed', 0), job.get('max_s'))
        if job.get('escalation') and r.get('unsupported'):
            r['escalation_truncated'] = r.pop('unsupported')      # a confirmation search may stop early; it decides nothing
    except Exception as ex:      # noqa
        import traceback
        r = {'kind': job['kind'], 'template': job['template'], 'error': repr(ex), 'trace': traceback.format_exc()[-1500:]}
    return r


def concrete_snapshot(inst, tree):
    """same text as the native replayer's SNAP line, from a fully concrete executor state"""
    from .trees import View
    v = View(inst, tree)
    c = lambda x: z3.simplify(x).as_long()
    n = c(v.unused.len)
    unused = [c(x) for x in v.unused.cells[:n]]
    nodes = []
    for i in range(v.n):
        nodes.append(f'{c(v.P[i])}:{c(v.L[i])}:{c(v.R[i])}:{1 if c(v.C[i]) == 0 else 0}:{c(v.K[i])}:{c(v.X[i]) if v.X[i] is not None else 0}:{c(v.V[i][0])}')
    return f'SNAP root={c(v.root)} unused={unused} nodes=' + ','.join(nodes)


def random_history(kind, rnd, length):
    """a random in-contract concrete history over a small key universe (translator validation)"""
    ops = []
    present = {}
    now = 0
    for _ in range(length):
        if kind == 'key':
            now += rnd.choice([0, 0, 1, 3])
            live = {k for k, x in present.items() if x > now}
            r = rnd.random()
            if r < 0.55:
                k = rnd.choice([k for k in range(1, 14) if k not in live] or [0])
                if k == 0:
                    continue
                x = now + rnd.choice([0, 1, 2, 4, 9, 30])
                present[k] = x
                ops.append({'op': 'insert', 'k': k, 'x': x, 'v': rnd.randrange(256), 't': now})
            elif r < 0.7:
                ops.append({'op': 'get_value', 'k': rnd.randrange(0, 15), 'x': 0, 't': now})
            elif r < 0.95:
                ops.append({'op': rnd.choice(['first_less', 'first_less_or_equal']), 'k': rnd.randrange(0, 15), 'x': 0, 'd': 77, 't': now})
            else:
                ops.append({'op': 'first_less_or_equal_by', 'p9': rnd.randrange(0, 30), 'd': 77, 't': now})
        else:
            r = rnd.random()
            if r < 0.5 or not present:
                k = rnd.choice([k for k in range(1, 14) if k not in present] or [0])
                if k == 0:
                    continue
                present[k] = 1
                ops.append({'op': 'insert', 'k': k, 'v': rnd.randrange(256)})
            elif r < 0.75:
                k = rnd.choice(sorted(present) + [rnd.randrange(0, 15)])
                present.pop(k, None)
                ops.append({'op': 'delete', 'k': k})
            elif r < 0.85:
                k = rnd.choice(sorted(present))
                present.pop(k, None)
                ops.append({'op': 'pred_delete', 'k': k})
            else:
                ops.append({'op': 'get_value', 'k': rnd.randrange(0, 15)})
    return ops


def validate_translator(P, kind, seed, count, length):
    """run random concrete histories through the MIR executor and natively; compare the complete final arena.
    returns (validated, mismatches[list])"""
    import random
    from . import common
    rnd = random.Random(seed * 7919 + {'map': 1, 'set': 2, 'key': 3}[kind])
    ok, bad = 0, []
    for _ in range(count):
        ops = random_history(kind, rnd, length)
        if not ops:
            continue
        h = Hist(P, kind, [o['op'] for o in ops], 0, 60000, 0, fixed=ops)
        r = h.run()
        hist = {'kind': kind, 'capacity': 0, 'ops': ops}
        nat = common.run_replay(hist, 'dev', dump=True)
        if r.get('unsupported') or len(h.final_trees) != 1 or h.final_trees[0][1] is None or h.final_trees[0][2]:
            bad.append({'history': hist, 'why': f'executor: paths={len(h.final_trees)} {r.get("unsupported")}'})
            continue
        mine = concrete_snapshot(h.inst, h.final_trees[0][1])
        if nat.get('snap') != mine or nat['findings'] or r['n_violations']:
            bad.append({'history': hist, 'executor': mine, 'native': nat.get('snap'), 'native_findings': nat['findings'], 'executor_violations': r['n_violations']})
        else:
            ok += 1
    return ok, bad
