"""Instantiations of iTree's generic tree code: which MIR function a call resolves to, how the std leaves
(Vec, slices, ranges, Option) behave, and what the user callbacks (K::cmp, K::lt, expiration, key accessor,
comparator closure, clone/default) are.  The std leaves are modelled from their documented contract; the
complete list of modelled leaves is INTRINSICS_DOC and goes into every evidence file as trusted base.
"""
import re
import z3

from .engine import (Unsupported, Ref, VecVal, UNIT, Opaque, bv, b_and, b_or, b_not, b_eq, b_ult, b_ule, ite, merge,
                     zext, TRUE, FALSE, EMPTY32)

INTRINSICS_DOC = [
    'Vec::{len,is_empty,capacity,push,pop,with_capacity,reserve,resize,index} (contract: len/cap bookkeeping, amortised doubling on push)',
    '<Vec as Deref/DerefMut>, slice::get_unchecked(_mut) (obligation idx < len), <Vec<u32> as Index<usize>> (panics when idx >= len)',
    'Range<u32|usize>::{into_iter,next,rev}, <Vec<u32> as Extend<u32>>::extend(Rev<Range<u32>>)',
    'Option::<u32>::unwrap (panics on None), <usize as Ord>::max, PhantomData::default/clone, mem::zeroed',
    'fmt::Arguments::* (opaque), panic entry points (obligation: unreachable)',
]


def ordering(lt, eq):
    """Ordering enum value: Less=-1, Equal=0, Greater=1 (i8 discriminant, as rustc lays out core::cmp::Ordering)"""
    return ['enum', ite(lt, bv(255, 8), ite(eq, bv(0, 8), bv(1, 8))), []]


class BaseInstance:
    """std leaves shared by the three tree instantiations"""
    module = None            # e.g. 'key'
    tree_type = None         # e.g. 'KeyExpTree'
    unused_slack = 2

    def __init__(s):
        s.cb_hook = None     # called as cb_hook(engine, st, kind, args) at every user callback
        s.summaries = {}     # method name -> fn(engine, st, frame, args) -> value (function summaries proven by their own step)

    # -------------------------------------------------- resolution of crate-local calls
    def resolve_fn(s, eng, fr, callee, args):
        P = eng.P
        c = callee
        mod = s.module
        m = re.match(r'^(\w+)::<.*?>::(\w+)(?:::<.*>)?$', c)
        if m and m.group(1) == s.tree_type:
            meth = m.group(2)
            cands = P.find(mod + '::tree', meth) + P.find(mod + '::array', meth)
            # trait methods and inherent helpers may share a name (e.g. `insert`): choose by arity
            cands = [f for f in cands if f.nargs == len(args)]
            if len(cands) != 1:
                raise Unsupported(f'cannot resolve {callee}: {cands}')
            return cands[0]
        m = re.match(r'^(\w+)::(\w+)::(\w+)::<.*?>::(\w+)$', c)      # key::pool::Pool::<K, E, V>::new
        if m and m.group(1) == mod:
            cands = [f for f in P.find(f'{mod}::{m.group(2)}', m.group(4)) if f.nargs == len(args)]
            if len(cands) != 1:
                raise Unsupported(f'cannot resolve {callee}: {cands}')
            return cands[0]
        m = re.match(r'^(\w+)::(\w+)::<impl .*>::(\w+)(?:::<.*>)?$', c)      # key::array::<impl KeyExpTree<K, E, V>>::expire_all
        if m and m.group(1) == mod:
            cands = [f for f in P.find(f'{mod}::{m.group(2)}', m.group(3)) if f.nargs == len(args)]
            if len(cands) != 1:
                raise Unsupported(f'cannot resolve {callee}: {cands}')
            return cands[0]
        m = re.match(r'^StackNode::new::<.*>$', c)
        if m:
            cands = [f for f in P.find(mod + '::array', 'new') if f.nargs == len(args)]
            if len(cands) != 1:
                raise Unsupported(f'cannot resolve {callee}: {cands}')
            return cands[0]
        m = re.match(rf'^<{mod}::node::Color as (PartialEq|Clone)>::(\w+)$', c)
        if m:
            cands = [f for f in P.find(mod + '::node', m.group(2)) if f.locals.get('_1', '').endswith('Color')]
            if len(cands) != 1:
                raise Unsupported(f'cannot resolve {callee}: {cands}')
            return cands[0]
        m = re.match(rf'^<{mod}::(node|entity)::(Node|Entity)<.*> as (Clone|Default)>::(\w+)$', c)
        if m:
            cands = [f for f in P.find(f'{mod}::{m.group(1)}', m.group(4))
                     if (f.nargs == 0 or m.group(2) in f.locals.get('_1', '')) and f.nargs == len(args)]
            if len(cands) != 1:
                raise Unsupported(f'cannot resolve {callee}: {cands}')
            return cands[0]
        m = re.match(rf'^<{s.tree_type}<.*> as \w+<.*>>::(\w+)$', c)
        if m:
            cands = [f for f in P.find(mod + '::tree', m.group(1)) + P.find(mod + '::array', m.group(1)) if f.nargs == len(args)]
            if len(cands) != 1:
                raise Unsupported(f'cannot resolve {callee}: {cands}')
            return cands[0]
        return None

    def const(s, eng, st, fr, c):
        raise Unsupported('const ' + c)

    def pure_call(s, callee, args):
        return NotImplemented

    def default_of(s, ty, like):
        """Default::default() of a generic parameter of the instantiation: all-zero value shaped like `like`"""
        def zero(v):
            if isinstance(v, list):
                return [zero(x) for x in v]
            if isinstance(v, z3.ExprRef) and z3.is_bv(v):
                return bv(0, v.size())
            raise Unsupported(f'default of {ty}')
        return zero(like)

    def drop(s, eng, st, fr, place):
        return None

    # -------------------------------------------------- callbacks
    def callback(s, eng, st, kind, args):
        if s.cb_hook:
            s.cb_hook(eng, st, kind, args)

    # -------------------------------------------------- std leaves
    def intrinsic(s, eng, st, fr, stmt, callee, args):
        R = lambda v: eng.ret_value(st, fr, stmt, v)
        c = callee
        if ' as Deref>::deref' in c or ' as DerefMut>::deref_mut' in c:
            return R(args[0])
        if re.match(r'^core::slice::<impl \[.*\]>::get_unchecked(_mut)?::<usize>$', c):
            r, idx = args
            vec = eng.read(st, r)
            eng.oblige(st, b_ult(idx, vec.len), 'bounds', f'{fr.fn.name.split("::")[-1]}: get_unchecked index < len')
            return R(Ref(r.root, r.path + (('i', idx),)))
        m = re.match(r'^Vec::<(.*)>::(\w+)$', c)
        if m:
            return s.vec_method(eng, st, fr, stmt, m.group(1), m.group(2), args)
        if re.match(r'^<Vec<.*> as Index(Mut)?<usize>>::index(_mut)?$', c):
            r, idx = args
            vec = eng.read(st, r)
            eng.oblige(st, b_ult(idx, vec.len), 'panic', f'{fr.fn.name.split("::")[-1]}: Vec index out of bounds')
            return R(Ref(r.root, r.path + (('i', idx),)))
        if re.match(r'^<std::ops::Range<(u32|usize|i32)> as IntoIterator>::into_iter$', c):
            return R(args[0])
        if re.match(r'^<std::ops::Range<(u32|usize|i32)> as Iterator>::rev$', c):
            return R(['rev', args[0]])
        if re.match(r'^<std::ops::Range<(u32|usize|i32)> as Iterator>::next$', c):
            rng = eng.read(st, args[0])
            start, end = rng
            w = start.size()

            def some(st2):
                eng.write(st2, args[0], [start + 1 if not z3.is_bv_value(start) else bv(start.as_long() + 1, w), end])
                eng.ret_value(st2, st2.frames[-1], stmt, ['enum', bv(1, 64), [start]])

            def none(st2):
                eng.ret_value(st2, st2.frames[-1], stmt, ['enum', bv(0, 64), []])
            lt = b_ult(start, end)
            return eng.fork(st, [(lt, some), (b_not(lt), none)])
        if c in ('<Vec<u32> as Extend<u32>>::extend::<Rev<std::ops::Range<u32>>>', '<Vec<u32> as Extend<u32>>::extend::<std::ops::Range<u32>>'):
            vec = eng.read(st, args[0])
            it = args[1]
            rev = isinstance(it[0], str) and it[0] == 'rev'
            start, end = it[1] if rev else it
            a, b, n = eng.concretize(start), eng.concretize(end), eng.concretize(vec.len)
            if a is None or b is None or n is None:
                raise Unsupported('extend with symbolic range')
            cells = list(vec.cells)
            vals = [bv(x, 32) for x in (range(b - 1, a - 1, -1) if rev else range(a, b))]
            for i, x in enumerate(vals):
                if n + i < len(cells):
                    cells[n + i] = x
                else:
                    cells.append(x)
            newlen = n + len(vals)
            cap = vec.cap
            # Vec::extend reserves first: capacity unchanged when it suffices, else amortised growth max(2*cap, len+additional)
            need = bv(newlen, 64)
            dbl = cap + cap
            grown = ite(z3.UGE(dbl, need), dbl, need)
            cap = ite(z3.UGE(cap, need), cap, grown)
            if z3.is_bv_value(vec.cap):
                cap = z3.simplify(cap)
            eng.write(st, args[0], VecVal(bv(newlen, 64), cells, cap))
            return R(UNIT)
        if re.match(r'^Option::<.*>::unwrap$', c):
            o = args[0]
            eng.oblige(st, b_eq(o[1], bv(1, 64)), 'panic', f'{fr.fn.name.split("::")[-1]}: unwrap on None')
            if z3.is_bv_value(o[1]) and o[1].as_long() == 0:
                eng.finish_path(st, 'panic')
                return 'end'
            return R(o[2][0])
        if re.match(r'^(std|core)::mem::replace::<.*>$', c):
            old = eng.read(st, args[0])
            eng.write(st, args[0], args[1])
            return R(old)
        if re.match(r'^(std|core)::mem::swap::<.*>$', c):
            a = eng.read(st, args[0]); b = eng.read(st, args[1])
            eng.write(st, args[0], b)
            eng.write(st, args[1], a)
            return R(UNIT)
        m = re.match(r'^(std|core)::mem::take::<(.*)>$', c)
        if m:
            old = eng.read(st, args[0])
            eng.write(st, args[0], s.default_of(m.group(2), old))
            return R(old)
        m = re.match(r'^<(u8|u16|u32|u64|usize) as Ord>::(max|min)$', c)
        if m and c != '<usize as Ord>::max':
            a, b = args
            ge = z3.UGE(a, b)
            return R(ite(ge, a, b) if m.group(2) == 'max' else ite(ge, b, a))
        if re.match(r'^core::num::<impl (u8|u16|u32|u64|usize)>::(saturating_sub|wrapping_sub|wrapping_add|saturating_add)$', c):
            a, b = args
            op = c.rsplit('::', 1)[1]
            if op == 'wrapping_sub':
                return R(a - b)
            if op == 'wrapping_add':
                return R(a + b)
            if op == 'saturating_sub':
                return R(ite(z3.UGE(a, b), a - b, bv(0, a.size())))
            return R(ite(z3.BVAddNoOverflow(a, b, False), a + b, bv((1 << a.size()) - 1, a.size())))
        # ---- shared-slice iteration, last(), Option<&T> equality (common in rewrites of loops over the free list)
        if re.match(r'^core::slice::<impl \[.*\]>::iter$', c):
            return R(['sliceiter', args[0], bv(0, 64)])
        if re.match(r"^<std::slice::Iter<'_, .*> as IntoIterator>::into_iter$", c):
            return R(args[0])
        if re.match(r"^<std::slice::Iter<'_, .*> as Iterator>::next$", c):
            it = eng.read(st, args[0])
            vec = eng.read(st, it[1])
            i = it[2]

            def some(st2):
                eng.write(st2, args[0], ['sliceiter', it[1], z3.simplify(i + 1)])
                eng.ret_value(st2, st2.frames[-1], stmt, ['enum', bv(1, 64), [Ref(it[1].root, it[1].path + (('i', i),))]])

            def none(st2):
                eng.ret_value(st2, st2.frames[-1], stmt, ['enum', bv(0, 64), []])
            lt = b_ult(i, vec.len)
            return eng.fork(st, [(lt, some), (b_not(lt), none)])
        if re.match(r'^core::slice::<impl \[.*\]>::(last|first)$', c):
            vec = eng.read(st, args[0])
            which = c.rsplit('::', 1)[1]

            def some(st2):
                v2 = eng.read(st2, args[0])
                idx = bv(0, 64) if which == 'first' else v2.len - 1
                eng.ret_value(st2, st2.frames[-1], stmt, ['enum', bv(1, 64), [Ref(args[0].root, args[0].path + (('i', idx),))]])

            def none(st2):
                eng.ret_value(st2, st2.frames[-1], stmt, ['enum', bv(0, 64), []])
            e = b_eq(vec.len, bv(0, 64))
            return eng.fork(st, [(b_not(e), some), (e, none)])
        m = re.match(r'^<Option<&(u8|u16|u32|u64|usize)> as PartialEq>::(eq|ne)$', c)
        if m:
            a = eng.read(st, args[0]); b = eng.read(st, args[1])
            da, db = a[1], b[1]
            both = b_and(b_eq(da, bv(1, 64)), b_eq(db, bv(1, 64)))
            if a[2] and b[2]:
                va = eng.read(st, a[2][0]); vb = eng.read(st, b[2][0])
                eq = b_and(b_eq(da, db), z3.Implies(both, va == vb) if not (z3.is_true(both)) else b_eq(va, vb))
            else:
                eq = b_eq(da, db)
            return R(eq if m.group(2) == 'eq' else b_not(eq))
        if c.startswith('std::vec::from_elem::<') or c.startswith('alloc::vec::from_elem::<'):
            n = eng.concretize(args[1])
            if n is None or n > 64:
                raise Unsupported('vec![x; n] with a symbolic or large n')
            return R(VecVal(bv(n, 64), [args[0]] * n, bv(n, 64)))
        if c == '<usize as Ord>::max':
            a, b = args
            return R(ite(z3.UGE(a, b) if not (z3.is_bv_value(a) and z3.is_bv_value(b)) else (TRUE if a.as_long() >= b.as_long() else FALSE), a, b))
        if re.match(r'^<PhantomData<.*> as (Default|Clone)>::(default|clone)$', c):
            return R([])
        if c.startswith('Arguments::') or c.startswith('core::fmt::') or c.startswith('std::fmt::'):
            return R(Opaque('fmt'))
        return s.user_intrinsic(eng, st, fr, stmt, callee, args)

    def user_intrinsic(s, eng, st, fr, stmt, callee, args):
        return NotImplemented

    # hooks for harnesses
    on_with_capacity = None

    def default_cell(s, elem_ty):
        raise Unsupported('default cell for ' + elem_ty)

    def vec_method(s, eng, st, fr, stmt, elem, meth, args):
        R = lambda v: eng.ret_value(st, fr, stmt, v)
        where = fr.fn.name.split('::')[-1]
        if meth == 'with_capacity':
            n = args[0]
            if s.on_with_capacity:
                s.on_with_capacity(eng, st, elem, n, where)
            return R(VecVal(bv(0, 64), [], n))
        vec = eng.read(st, args[0])
        if meth == 'len':
            return R(vec.len)
        if meth == 'is_empty':
            return R(b_eq(vec.len, bv(0, 64)))
        if meth == 'capacity':
            return R(vec.cap)
        if meth == 'push':
            v = args[1]
            cells = list(vec.cells)
            if z3.is_bv_value(vec.len):
                n = vec.len.as_long()
                if n < len(cells):
                    cells[n] = v
                else:
                    while len(cells) < n:
                        raise Unsupported('push beyond modelled cells')
                    cells.append(v)
                newlen = bv(n + 1, 64)
            else:
                eng.oblige(st, z3.ULT(vec.len, bv(len(cells), 64)), 'model', f'{where}: push stays within the {len(cells)} modelled cells')
                for j in range(len(cells)):
                    cells[j] = merge(vec.len == j, v, cells[j])
                newlen = vec.len + 1
            full = b_eq(vec.len, vec.cap)
            dbl = vec.cap + vec.cap
            four = bv(4, 64)
            grown = ite(z3.UGE(dbl, four), dbl, four)
            newcap = ite(full, grown, vec.cap)
            if z3.is_bv_value(vec.len) and z3.is_bv_value(vec.cap):
                newcap = z3.simplify(newcap)
            eng.write(st, args[0], VecVal(newlen, cells, newcap))
            return R(UNIT)
        if meth == 'pop':
            def some(st2):
                v2 = eng.read(st2, args[0])
                last = v2.len - 1 if not z3.is_bv_value(v2.len) else bv(v2.len.as_long() - 1, 64)
                if z3.is_bv_value(last):
                    item = v2.cells[last.as_long()]
                else:
                    item = v2.cells[-1]
                    for j in range(len(v2.cells) - 2, -1, -1):
                        item = merge(last == j, v2.cells[j], item)
                eng.write(st2, args[0], VecVal(last, v2.cells, v2.cap))
                eng.ret_value(st2, st2.frames[-1], stmt, ['enum', bv(1, 64), [item]])

            def none(st2):
                eng.ret_value(st2, st2.frames[-1], stmt, ['enum', bv(0, 64), []])
            e = b_eq(vec.len, bv(0, 64))
            return eng.fork(st, [(b_not(e), some), (e, none)])
        if meth == 'reserve':
            add = args[1]
            need = vec.len + add
            # RawVec::reserve: no-op when cap - len >= additional, else cap' = max(2*cap, len+additional, 4)
            enough = z3.UGE(vec.cap - vec.len, add)
            dbl = vec.cap + vec.cap
            g = ite(z3.UGE(dbl, need), dbl, need)
            g = ite(z3.UGE(g, bv(4, 64)), g, bv(4, 64))
            newcap = ite(enough, vec.cap, g)
            if all(z3.is_bv_value(x) for x in (vec.len, add, vec.cap)):
                newcap = z3.simplify(newcap)
            eng.write(st, args[0], VecVal(vec.len, vec.cells, newcap))
            return R(UNIT)
        if meth == 'resize':
            newlen, val = args[1], args[2]
            if not (z3.is_bv_value(newlen) and z3.is_bv_value(vec.len)):
                raise Unsupported('resize with symbolic length')
            n0, n1 = vec.len.as_long(), newlen.as_long()
            cells = list(vec.cells[:n0])
            if n1 < n0:
                raise Unsupported('shrinking resize')
            cells += [val] * (n1 - n0)
            eng.oblige(st, z3.UGE(vec.cap, newlen) if not z3.is_bv_value(vec.cap) else (TRUE if vec.cap.as_long() >= n1 else FALSE),
                       'model', f'{where}: resize within reserved capacity')
            eng.write(st, args[0], VecVal(newlen, cells, vec.cap))
            return R(UNIT)
        if meth == 'clear':
            eng.write(st, args[0], VecVal(bv(0, 64), vec.cells, vec.cap))
            return R(UNIT)
        return NotImplemented
