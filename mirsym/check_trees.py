"""Driver for the tree properties decided by the MIR symbolic executor (engine E1)."""
import json
import os
import sys
import time
import multiprocessing as mp

from . import common, jobs, plan, steps
from .history import run_history_job
from .instance import INTRINSICS_DOC

TIERS = {
    # N = arena slots for the inductive step; max_expired = physically present expired entries at operation time
    # N = arena slots for map/set mutating steps, N_key for the key tree, N_readonly for read-only map/set steps,
    # N_heavy for the checks that run (nearly) every harness
    'quick': {'N': 5, 'N_key': 5, 'max_expired': 1, 'N_heavy': 4, 'N_readonly': 7, 'timeout_ms': 300000},
    'thorough': {'N': 7, 'N_key': 6, 'max_expired': 2, 'N_heavy': 5, 'N_readonly': 8, 'timeout_ms': 1800000},
}
READ_ONLY = {'index_after', 'index_before', 'first_index_less', 'first_index_less_by', 'value_by_index', 'get_value', 'is_empty'}
HEAVY = {'C10', 'C02', 'C11', 'C18'}        # properties that run many harnesses: one size smaller in the quick tier


def finding_key(tag, kind, op):
    return f'{tag}|{kind}|{op}'


def run(pid, tier, seed, procs=None):
    t0 = time.time()
    cfg = TIERS[tier]
    mir, mirhash, mir_s = common.dump_mir()
    N = cfg['N_heavy'] if pid in HEAVY and tier == 'quick' else cfg['N']
    if pid in ('C02', 'C11') and tier == 'quick':
        N = 5
    if pid in HEAVY and tier == 'thorough':
        N = cfg['N'] if pid in ('C02', 'C11') else cfg['N_heavy']
    if os.environ.get('VERIF_N'):
        N = int(os.environ['VERIF_N'])           # experiments only
    step_specs = []
    only = os.environ.get('VERIF_ONLY')        # experiments only: "kind:op,kind:op"
    for kind, op in plan.steps_for(pid):
        if only and f'{kind}:{op}' not in only.split(','):
            continue
        n_op = N
        if kind == 'key' and N > cfg['N_key']:
            n_op = cfg['N_key']
        if tier == 'thorough' and op == 'into_ordered_vec':
            n_op = 5        # measured: the export step at N=6 with 2 expired entries exceeds the exploration budget (8.5 k paths in 43 min, not done)
        if tier == 'quick' and (pid not in HEAVY or pid == 'C02') and kind in ('map', 'set') and op in ('delete', 'delete_by_index'):
            n_op = 6        # removal cases with a non-trivial subtree on both sides need 5 entries
        if tier == 'quick' and pid in ('C02', 'C11') and kind == 'key' and op in ('get_value', 'first_less', 'first_less_or_equal', 'first_less_or_equal_by'):
            n_op = 4        # the lazy-expiry queries at N=5 are part of C01 / C06, which discharge the invariant too
        if tier == 'quick' and pid == 'C01' and kind == 'key' and op == 'insert':
            n_op = 6        # an expired node with a child below a node that has another child, plus a free slot: 4 entries + 1
        if kind in ('map', 'set') and op in READ_ONLY and pid not in HEAVY:
            n_op = cfg['N_readonly'] - (1 if pid == 'C08' and tier == 'quick' else 0)       # read-only operations are cheap: larger arenas (rarer shapes, e.g. a 3-deep inner spine needs 6 entries)
        spec = {'kind': kind, 'op': op, 'N': n_op, 'timeout_ms': cfg['timeout_ms'], 'check_callbacks': pid == 'C18', 'tags': plan.tags_for(pid)}
        if kind == 'key':
            spec['max_expired'] = cfg['max_expired']
        step_specs.append(spec)
        if op == 'insert' and pid in ('C02', 'C04', 'C05', 'C11', 'C10', 'C17', 'C01'):
            g = dict(spec, growth=True, N=min(N, 4))      # arena full: the insert has to grow the pool
            step_specs.append(g)
    step_jobs = []
    for sp in step_specs:
        step_jobs += jobs.expand(sp, mir, seed)
    hist_jobs = [{'mir': mir, 'kind': k, 'template': t, 'capacity': cap, 'seed': seed, 'timeout_ms': cfg['timeout_ms'], 'tags': plan.tags_for(pid),
                  'max_s': 600 if tier == 'quick' else 3600}
                 for k, t, cap in plan.histories_for(pid, tier)]
    lemma_jobs = [{'kind': k, 'N': N} for k in ('map', 'key')] if pid == 'C02' else []
    audit = None
    if pid == 'C18':
        from .mir import cleanup_audit
        bad, nblocks = cleanup_audit(jobs.program(mir), ['map::tree', 'set::tree', 'key::tree', 'map::pool', 'set::pool', 'key::pool'])
        audit = {'cleanup_blocks_audited': nblocks, 'offending': bad[:10]}
    common.log(f'[{pid}] {len(step_jobs)} step cubes, {len(hist_jobs)} history templates, N={N}, tier={tier}')
    all_jobs = [('step', j) for j in step_jobs] + [('hist', j) for j in hist_jobs] + [('lemma', j) for j in lemma_jobs]
    results = run_mixed(all_jobs, procs)
    step_res = [r for k, r in results if k == 'step']
    hist_res = [r for k, r in results if k == 'hist']
    lemmas = [x for k, r in results if k == 'lemma' for x in r]
    # translator validation: random concrete histories through the MIR executor and the native crate, complete final arenas compared
    from .history import validate_translator
    tv = {'validated': 0, 'mismatches': []}
    for kind in sorted({k for k, _ in plan.steps_for(pid)}):
        ok, bad = validate_translator(jobs.program(mir), kind, seed, 4 if tier == 'quick' else 20, 14)
        tv['validated'] += ok
        tv['mismatches'] += bad[:2]
    audit = dict(audit or {}, translator_validation=tv)
    out = finish(pid, tier, seed, t0, mirhash, mir_s, N, cfg, step_res, hist_res, lemmas, audit)
    if out.get('unconfirmed') and tier != 'escalate':
        # a step counterexample that no history of the tier's depth reproduces: search deeper histories before giving up
        seen = {(j['kind'], tuple(j['template']), j.get('capacity', 0)) for j in hist_jobs}
        extra = [{'mir': mir, 'kind': k, 'template': t, 'capacity': cap, 'seed': seed, 'timeout_ms': cfg['timeout_ms'], 'tags': plan.tags_for(pid),
                  'escalation': True, 'max_s': 180}
                 for k, t, cap in plan.histories_for(pid, 'escalate') if (k, tuple(t), cap) not in seen]
        kinds = {k for k, _ in out['unconfirmed']}
        extra = [j for j in extra if j['kind'] in kinds]
        common.log(f'[{pid}] {len(out["unconfirmed"])} unconfirmed step counterexamples: escalating to {len(extra)} deeper history templates')
        more = run_mixed([('hist', j) for j in extra], procs)
        hist_res = hist_res + [r for _, r in more]
        out = finish(pid, tier, seed, t0, mirhash, mir_s, N, cfg, step_res, hist_res, lemmas, audit)
    return out


def _run_one(x):
    kind, job = x
    if kind == 'step':
        return kind, jobs.run_job(job)
    if kind == 'lemma':
        from .lemmas import lemma_job
        return kind, lemma_job(job)
    return kind, run_history_job(job)


def run_mixed(all_jobs, procs=None):
    procs = procs or min(16, os.cpu_count() or 1)
    all_jobs = sorted(all_jobs, key=lambda x: (0 if x[0] == 'step' else 1, -x[1].get('N', 0)))
    ctx = mp.get_context('fork')
    out = []
    with ctx.Pool(procs, maxtasksperchild=8) as pool:
        for r in pool.imap_unordered(_run_one, all_jobs, chunksize=1):
            out.append(r)
    return out


def finish(pid, tier, seed, t0, mirhash, mir_s, N, cfg, step_res, hist_res, lemmas=(), audit=None):
    tags = plan.tags_for(pid)
    mine = lambda tag: any(tag.startswith(t) for t in tags) or tag.startswith('C10:')     # a crash inside the property's own harness violates it too
    agg = jobs.merge_results(step_res)
    inconclusive = []
    tv = (audit or {}).get('translator_validation')
    tv_findings = []
    if tv:
        real = [b for b in tv['mismatches'] if b.get('why') or b.get('executor') != b.get('native')]
        if real:
            inconclusive.append(f'translator validation: MIR executor and native crate disagree on a concrete history: {json.dumps(real[0])[:600]}')
        for b in tv['mismatches']:
            if b not in real and b.get('native_findings'):
                tv_findings.append(b)
    if audit and audit.get('offending'):
        inconclusive.append(f'cleanup path touches non-local state (unwinding after a callback panic is not modelled): {audit["offending"][:2]}')
    for l in lemmas:
        if l['result'] != 'unsat':
            inconclusive.append(f'invariant lemma {l["lemma"]} ({l["kind"]}, N={l["N"]}): {l["result"]}')
    # ---- collect step violations of this property
    step_viol = []
    for key, a in agg.items():
        for e in a['errors']:
            inconclusive.append(f'step {a["kind"]}::{a["op"]}: error {e[:300]}')
        for u in a['unsupported']:
            inconclusive.append(f'step {a["kind"]}::{a["op"]}: unsupported MIR/callee: {u[:300]}')
        if a['unknown']:
            inconclusive.append(f'step {a["kind"]}::{a["op"]}: {a["unknown"]} solver timeouts/unknowns')
        for v in a['violations']:
            if v['tag'] == 'C10:model':
                inconclusive.append(f'step {a["kind"]}::{a["op"]}: modelling limit reached ({v["desc"]}); args={v.get("args")}')
            elif mine(v['tag']):
                step_viol.append((a['kind'], a['op'], v))
    # ---- history violations of this property, replayed natively
    confirmed = []       # (key, tag, kind, op, history, native findings)
    unconfirmed_hist = []
    hist_paths = hist_queries = hist_obl = 0
    hist_s = 0.0
    for r in hist_res:
        if 'error' in r:
            inconclusive.append(f'history {r["kind"]} {r["template"]}: error {r["error"][:300]}')
            continue
        if r.get('unsupported'):
            inconclusive.append(f'history {r["kind"]} {r["template"]}: unsupported: {r["unsupported"][:300]}')
        if r.get('unknown'):
            inconclusive.append(f'history {r["kind"]} {r["template"]}: {r["unknown"]} solver unknowns')
        hist_paths += r['paths']; hist_queries += r['queries']; hist_obl += r['obligations']; hist_s += r.get('wall_s', 0)
        for v in r['violations']:
            if not mine(v['tag']):
                continue
            h = v['history']
            op = h['ops'][v['at_op']]['op'] if v['at_op'] < len(h['ops']) else h['ops'][-1]['op']
            nat = [common.run_replay(h, 'dev'), common.run_replay(h, 'release')]
            hit = [(p['profile'], f) for p in nat for f in p['findings'] if mine(f[1])]
            if hit:
                confirmed.append({'key': finding_key(v['tag'], r['kind'], op), 'tag': v['tag'], 'kind': r['kind'], 'op': op,
                                  'history': h, 'native': [f'{prof}: op#{f[0]} {f[1]} {f[2]}' for prof, f in hit][:4]})
            else:
                unconfirmed_hist.append({'tag': v['tag'], 'history': h, 'native': [p['findings'] for p in nat]})
    for u in unconfirmed_hist:
        inconclusive.append(f'history counterexample for {u["tag"]} does not reproduce natively (encoding suspect): {json.dumps(u["history"])[:300]}')
    # ---- step violations must be confirmed by a replayed history with the same tag and operation
    # concrete random histories of the translator validation on which the native reference model itself reports a violation
    for b in tv_findings:
        fs = [f for f in b['native_findings'] if mine(f[1])]
        if fs:
            h = b['history']
            opi = fs[0][0]
            op = h['ops'][opi]['op'] if 0 <= opi < len(h['ops']) else h['ops'][-1]['op']
            confirmed.append({'key': finding_key(fs[0][1], h['kind'], op), 'tag': fs[0][1], 'kind': h['kind'], 'op': op, 'history': h,
                              'native': [f'dev: op#{f[0]} {f[1]} {f[2]}' for f in fs][:4], 'via': 'translator-validation history (concrete, not solver-found)'})
    # ---- step counterexamples without a confirming history: guided native search for a history reaching the pre-state
    def is_conf(kind, op):
        ck = {(c['kind'], c['op']) for c in confirmed}
        return ((kind, op) in ck or (op == 'is_part_of_the_tree' and (kind, 'into_ordered_vec') in ck)
                or (common.STEP_TO_HISTORY_OP.get(op), kind) in {(o2, k2) for k2, o2 in ck})
    tried = {}
    for kind, op, v in step_viol:
        if is_conf(kind, op) or tried.get((kind, op), 0) >= 4:
            continue
        tried[(kind, op)] = tried.get((kind, op), 0) + 1
        try:
            h = common.guided_history(kind, op, v)
        except Exception as ex:      # noqa
            common.log(f'[{pid}] guided search failed: {ex!r}')
            h = None
        if h is None:
            continue
        if pid == 'C18':
            # C18: the guided history ends with the operation under test; run it natively with the N-th callback panicking
            nat = []
            for fuse in range(0, 14):
                r1 = common.run_replay(h, 'dev', fuse=fuse)
                nat.append(r1)
                if any(mine(f[1]) for f in r1['findings']):
                    h = dict(h, fuse=fuse)
                    break
        else:
            nat = [common.run_replay(h, 'dev'), common.run_replay(h, 'release')]
        hit = [(p['profile'], f) for p in nat for f in p['findings'] if mine(f[1])]
        if hit:
            hop = h['ops'][-1]['op']
            confirmed.append({'key': finding_key(v['tag'], kind, hop), 'tag': v['tag'], 'kind': kind, 'op': hop, 'history': h,
                              'native': [f'{prof}: op#{f[0]} {f[1]} {f[2]}' for prof, f in hit][:4], 'via': 'guided-search'})
    conf_keys = {(c['kind'], c['op']) for c in confirmed}
    unconfirmed = []
    for kind, op, v in step_viol:
        # a step counterexample counts as confirmed when a replayed history violates the same property through the same operation
        # (tags may differ in detail: e.g. obligation classes bounds/assert/unwind show up natively as abort/panic/hang)
        ok = is_conf(kind, op) or (op in ('first_index_less', 'first_index_less_by') and any(k2 == kind and o2.startswith('pred_') for k2, o2 in conf_keys))
        if not ok:
            unconfirmed.append((kind, op))
            inconclusive.append(f'step counterexample {v["tag"]} in {kind}::{op} (N={N}) is not confirmed by any replayed public-API history '
                                f'within the history bound: pre-state may be unreachable (invariant too weak) or the bound too small; args={v.get("args")}')
    # ---- known findings
    known = common.load_known()
    known_keys = {k['key']: k for k in known.get('known', []) if k['property'] == pid}
    new_viol = []
    seen = set()
    lines = []
    for c in confirmed:
        if c['key'] in seen:
            continue
        seen.add(c['key'])
        if c['key'] in known_keys:
            lines.append(f'KNOWN-FINDING: property={pid} {known_keys[c["key"]]["what"]}')
        else:
            new_viol.append(c)
    # ---- replay artefacts
    rdir = os.path.join(common.evidence_dir(), 'replay')
    os.makedirs(rdir, exist_ok=True)
    for i, c in enumerate(new_viol):
        path = os.path.join(rdir, f'{pid}-{i}.json')
        json.dump({'property': pid, 'tag': c['tag'], 'engine': 'native-replay', 'history': c['history'], 'native': c['native']}, open(path, 'w'), indent=1)
        c['replay'] = path
        lines.append(f'VIOLATION property={pid} replay={path}')
    # ---- evidence
    paths = sum(a['paths'] for a in agg.values())
    obligations = sum(a['obligations'] for a in agg.values())
    queries = sum(a['queries'] for a in agg.values())
    solver_s = sum(a['solver_s'] + a['query_s'] for a in agg.values())
    fns = sorted({f for a in agg.values() for f in a['fns']} | {f for r in hist_res for f in r.get('fns', [])})
    samples = []
    for a in agg.values():
        for smp in a['samples'][:1]:
            samples.append({'harness': f'step {a["kind"]}::{a["op"]} N={a["N"]}', **smp})
    for r in hist_res[:3]:
        for smp in r.get('samples', [])[:1]:
            samples.append({'harness': 'history', 'concrete_instance_of_symbolic_history': smp})
    post_tags = {}
    for a in agg.values():
        for k, v in a['post_tags'].items():
            if mine(k):
                post_tags[k] = post_tags.get(k, 0) + v
    for r in hist_res:
        for k, v in r.get('post_tags', {}).items():
            if mine(k):
                post_tags['history:' + k] = post_tags.get('history:' + k, 0) + v
    by_kind = {}
    for a in agg.values():
        for k, v in a['by_kind'].items():
            by_kind[k] = by_kind.get(k, 0) + v
    ev = {
        'property_id': pid, 'tier': tier, 'seed': seed, 'level': 'model_checking',
        'coverage': {
            'states': max(1, paths + hist_paths),
            'transitions': max(1, obligations + hist_obl),
            'traces_validated_against_impl': len(confirmed) + len(unconfirmed_hist) + (tv['validated'] if tv else 0),
            'samples': samples[:8] or [{'note': 'no feasible path'}],
            'explanation': 'states = feasible symbolic paths (each covers every arena/argument valuation satisfying its path condition); '
                           'transitions = obligations discharged by the solver (memory-safety/panic/unwinding obligations + tagged post-conditions)',
            'engine': 'mirsym: symbolic execution of rustc MIR + z3 (QF_BV), MIR regenerated from /repo working tree',
            'mir_sha256': mirhash, 'mir_dump_s': round(mir_s, 1),
            'bounds': {'arena_slots_N': N, 'arena_slots_N_key_tree': min(N, cfg['N_key']), 'arena_slots_N_read_only_ops': cfg['N_readonly'], 'max_entries': N - 1, 'key_bits': 8, 'expiration_bits': 8, 'value_bits': 8,
                       'max_expired_entries_at_op_time': cfg['max_expired'], 'history_templates': len(hist_res),
                       'history_max_inserts': 4 if tier == 'thorough' else 3,
                       'outside': 'arenas with more slots than N; histories longer than the templates; V with side-effecting Clone/Drop; allocation failure'},
            'step_harnesses': [{'harness': f'{a["kind"]}::{a["op"]}', 'N': a['N'], 'cubes': a['cubes'], 'paths': a['paths'], 'obligations': a['obligations'],
                                'final_queries': a['queries'], 'feasibility_queries': a['solver_calls'], 'solver_s': round(a['solver_s'] + a['query_s'], 1),
                                'path_end': a['statuses'], 'callbacks_observed': a['callbacks'], 'callback_snapshots_checked': a['cb_snapshots_checked']}
                               for a in agg.values()],
            'history_runs': {'templates': len(hist_res), 'paths': hist_paths, 'final_queries': hist_queries, 'obligations': hist_obl, 'cpu_s': round(hist_s, 1)},
            'post_conditions_discharged': post_tags, 'obligation_classes': by_kind,
            'invariant_lemmas': list(lemmas), 'unwind_cleanup_audit': audit,
            'functions_encoded': fns, 'queries_discharged': queries + hist_queries, 'solver_time_s': round(solver_s, 1),
            'confirmed_findings': [{'key': c['key'], 'history': c['history'], 'native': c['native']} for c in confirmed][:6],
            'inconclusive': inconclusive[:10],
        },
        'assumptions': ['std leaves modelled from their contract: ' + '; '.join(INTRINSICS_DOC),
                        'instantiation: keys u8 (key tree: {k:u8, exp:u8} ordered by k), values opaque 8-bit tokens, comparator closures = the family k -> (2k).cmp(p), p 9-bit',
                        'pre-states: every arena satisfying the representation invariant (witness form), incl. arbitrary stale links/entities in free slots (link-typed, acyclic stale back-links) and arbitrary free-list order',
                        'contract preconditions as listed in DESIGN.md for this property'],
        'wall_s': round(time.time() - t0, 1),
        'violations': len(new_viol),
    }
    for m in inconclusive[:12]:
        common.log(f'[{pid}] INCONCLUSIVE: {m}')
    common.log(f'[{pid}] paths={paths}+{hist_paths} obligations={obligations}+{hist_obl} confirmed={len(confirmed)} new={len(new_viol)} inconclusive={len(inconclusive)} wall={time.time()-t0:.0f}s')
    rc = 1 if new_viol else (2 if inconclusive else 0)
    return {'rc': rc, 'lines': lines, 'ev': ev, 'unconfirmed': unconfirmed}


def replay_file(path):
    d = json.load(open(path))
    h = d['history']
    bad = 0
    for prof in ('dev', 'release'):
        r = common.run_replay(h, prof, fuse=h.get('fuse'))
        print(prof, json.dumps(r['findings']))
        bad += len(r['findings'])
    return 1 if bad else 0
