"""Parser for rustc's `-Zunpretty=mir` text dump (the subset iTree produces).

Nothing here is specific to a property; the dump is regenerated from /repo's
working tree on every run (see common.dump_mir) and parsed into Fn objects whose
blocks hold pre-parsed statement tuples.  Anything the parser does not recognise
is kept as ('unknown', text) and makes the executor stop with Unsupported when
(and only when) it is reached, so a change in /repo can never be silently skipped.
"""
import re


class Fn:
    __slots__ = ('name', 'nargs', 'locals', 'blocks', 'raw', 'cleanup', 'src')

    def __init__(s, name, nargs, locals_, blocks, cleanup, raw):
        s.name, s.nargs, s.locals, s.blocks, s.cleanup, s.raw = name, nargs, locals_, blocks, cleanup, raw

    def __repr__(s):
        return f'<Fn {s.name}>'


def split_top(s, sep=','):
    """split on `sep` at bracket depth 0 (brackets: ( < [ {), ignoring `->` and string literals"""
    out = []
    depth = 0
    cur = []
    i = 0
    n = len(s)
    instr = False
    while i < n:
        ch = s[i]
        if instr:
            cur.append(ch)
            if ch == '\\':
                cur.append(s[i + 1]); i += 1
            elif ch == '"':
                instr = False
        elif ch == '"':
            instr = True; cur.append(ch)
        elif ch in '([{':
            depth += 1; cur.append(ch)
        elif ch in ')]}':
            depth -= 1; cur.append(ch)
        elif ch == '<':
            # generic bracket unless it is a comparison (never occurs in MIR text) ; `<` after space+op is not used
            depth += 1; cur.append(ch)
        elif ch == '>':
            if i > 0 and s[i - 1] == '-':
                cur.append(ch)       # `->`
            else:
                depth -= 1; cur.append(ch)
        elif ch == sep and depth == 0:
            out.append(''.join(cur).strip()); cur = []
        else:
            cur.append(ch)
        i += 1
    t = ''.join(cur).strip()
    if t:
        out.append(t)
    return out


def matching_paren(s, i):
    depth = 0
    for j in range(i, len(s)):
        if s[j] == '(':
            depth += 1
        elif s[j] == ')':
            depth -= 1
            if depth == 0:
                return j
    return -1


_place_cache = {}


def parse_place(s):
    """-> (local, (proj...)) with proj = ('deref',) | ('field', n) | ('index', local) | ('downcast', name)"""
    r = _place_cache.get(s)
    if r is None:
        r = _parse_place(s.strip())
        _place_cache[s] = r
    return r


def _parse_place(s):
    if re.match(r'^_\d+$', s):
        return (s, ())
    if s.startswith('(*') and matching_paren(s, 0) == len(s) - 1:
        loc, pr = _parse_place(s[2:-1].strip())
        return (loc, pr + (('deref',),))
    if s.startswith('(') and matching_paren(s, 0) == len(s) - 1:
        inner = s[1:-1]
        # forms:  BASE.N: TYPE   |   BASE as Variant
        depth = 0
        pos = None
        for i, ch in enumerate(inner):
            if ch in '(<[':
                depth += 1
            elif ch in ')]':
                depth -= 1
            elif ch == '>' and inner[i - 1] != '-':
                depth -= 1
            elif ch == ':' and depth == 0 and inner[i + 1:i + 2] == ' ':
                pos = i
                break
        if pos is not None:
            base_n = inner[:pos]
            k = base_n.rindex('.')
            loc, pr = _parse_place(base_n[:k].strip())
            return (loc, pr + (('field', int(base_n[k + 1:])),))
        m = re.match(r'^(.*) as (\w+)$', inner)
        if m:
            loc, pr = _parse_place(m.group(1).strip())
            return (loc, pr + (('downcast', m.group(2)),))
    m = re.match(r'^(.*)\[(_\d+)\]$', s)
    if m:
        loc, pr = _parse_place(m.group(1).strip())
        return (loc, pr + (('index', m.group(2)),))
    raise ValueError('place ' + s)


BINOPS = ('Eq', 'Ne', 'Lt', 'Le', 'Gt', 'Ge', 'Add', 'Sub', 'Mul', 'AddWithOverflow', 'SubWithOverflow',
          'MulWithOverflow', 'BitAnd', 'BitOr', 'BitXor', 'Shl', 'Shr', 'AddUnchecked', 'SubUnchecked',
          'ShlUnchecked', 'ShrUnchecked', 'Offset', 'Cmp', 'Div', 'Rem')
_binop_re = re.compile(r'^(' + '|'.join(BINOPS) + r')\((.*)\)$')
_call_re = re.compile(r'^(.+?) = (.+)\((.*)\) -> (.*)$')


def parse_operand(op):
    op = op.strip()
    if op.startswith('copy '):
        return ('copy', parse_place(op[5:]))
    if op.startswith('move '):
        return ('move', parse_place(op[5:]))
    if op.startswith('const '):
        return ('const', op[6:].strip())
    raise ValueError('operand ' + op)


def parse_rvalue(rv):
    rv = rv.strip()
    if rv.startswith('no_retag '):
        rv = rv[9:]
    if rv.startswith('&mut '):
        return ('ref', parse_place(rv[5:]))
    if rv.startswith('&raw '):
        return ('unknown', rv)
    if rv.startswith('&'):
        return ('ref', parse_place(rv[1:]))
    m = _binop_re.match(rv)
    if m:
        a, b = split_top(m.group(2))
        return ('binop', m.group(1), parse_operand(a), parse_operand(b))
    m = re.match(r'^(Not|Neg)\((.*)\)$', rv)
    if m:
        return ('unop', m.group(1), parse_operand(m.group(2)))
    m = re.match(r'^discriminant\((.*)\)$', rv)
    if m:
        return ('discr', parse_place(m.group(1)))
    m = re.match(r'^(.*) as ([\w:]+) \((\w+)(?:\(.*\))?\)$', rv)
    if m and m.group(1).startswith(('copy ', 'move ', 'const ')):
        return ('cast', parse_operand(m.group(1)), m.group(2), m.group(3))
    if rv.startswith(('copy ', 'move ', 'const ')):
        return ('use', parse_operand(rv))
    m = re.match(r'^Option::<.*>::None$', rv)
    if m:
        return ('enum', 0, [])
    m = re.match(r'^Option::<.*?>::Some\((.*)\)$', rv)
    if m:
        return ('enum', 1, [parse_operand(m.group(1))])
    m = re.match(r'^(?:[\w]+::)*(\w+)::(Red|Black)$', rv)
    if m and m.group(1) == 'Color':
        return ('color', 0 if m.group(2) == 'Red' else 1)
    m = re.match(r'^core::panicking::AssertKind::\w+$', rv)
    if m:
        return ('opaque',)
    m = re.match(r'^[\w:]+(?:::<.*>)? \{ (.*) \}$', rv)
    if m:
        fields = split_top(m.group(1))
        return ('aggr', [parse_operand(f.split(': ', 1)[1]) for f in fields], [f.split(': ', 1)[0] for f in fields])
    if rv.startswith('(') and rv.endswith(')'):
        inner = rv[1:-1].strip()
        if inner.endswith(','):
            inner = inner[:-1]
        parts = split_top(inner) if inner else []
        if all(p.startswith(('copy ', 'move ', 'const ')) for p in parts):
            return ('aggr', [parse_operand(p) for p in parts], None)
    if rv.startswith('[') and rv.endswith(']'):
        m = re.match(r'^\[(.*); (\d+)\]$', rv)
        if m and m.group(1).startswith(('copy ', 'move ', 'const ')):
            return ('repeat', parse_operand(m.group(1)), int(m.group(2)))
        return ('unknown', rv)
    return ('unknown', rv)


def parse_targets(t):
    """`[return: bb3, unwind continue]` / `[return: bb3, unwind: bb7]` / `unwind continue` / `bb5` -> (ret, unwind)"""
    t = t.strip()
    ret = None
    unwind = None
    if t.startswith('['):
        inner = t[1:t.rindex(']')]
        for part in inner.split(','):
            part = part.strip()
            if part.startswith('return: '):
                ret = part[8:]
            elif part.startswith('success: '):
                ret = part[9:]
            elif part.startswith('unwind: '):
                unwind = part[8:]
            elif part.startswith('unwind '):
                unwind = part[7:]      # continue / terminate(...) / unreachable
    elif t.startswith('unwind'):
        unwind = t[7:].lstrip(': ').strip()
    elif re.match(r'^bb\d+$', t):
        unwind = t                     # diverging call with cleanup edge only
    return ret, unwind


def parse_stmt(stmt):
    if stmt.endswith(';'):
        stmt = stmt[:-1]
    if stmt.startswith('goto -> '):
        return ('goto', stmt[8:])
    if stmt == 'return':
        return ('return',)
    if stmt == 'unreachable':
        return ('unreachable',)
    if stmt == 'resume':
        return ('resume',)
    if stmt.startswith(('StorageLive', 'StorageDead', 'nop', 'FakeRead', 'PlaceMention', 'AscribeUserType', 'Coverage', 'ConstEvalCounter')):
        return ('nop',)
    if stmt.startswith('switchInt('):
        m = re.match(r'switchInt\((.*)\) -> \[(.*)\]$', stmt)
        cases = []
        other = None
        for t in m.group(2).split(','):
            a, b = t.strip().split(': ')
            if a == 'otherwise':
                other = b
            else:
                cases.append((int(a), b))
        return ('switch', parse_operand(m.group(1)), cases, other)
    if stmt.startswith('assert('):
        j = matching_paren(stmt, 6)
        inner = stmt[7:j]
        parts = split_top(inner)
        c = parts[0]
        neg = c.startswith('!')
        if neg:
            c = c[1:]
        ret, unwind = parse_targets(stmt[j + 1:].strip()[3:])
        return ('assert', neg, parse_operand(c), parts[1] if len(parts) > 1 else '', ret, unwind)
    if stmt.startswith('drop('):
        j = matching_paren(stmt, 4)
        ret, unwind = parse_targets(stmt[j + 1:].strip()[3:])
        return ('drop', parse_place(stmt[5:j]), ret, unwind)
    # call:  DEST = CALLEE(ARGS) -> TARGETS     (CALLEE never starts with one of the rvalue keywords)
    if ' -> ' in stmt and ' = ' in stmt:
        dest, rest = stmt.split(' = ', 1)
        # find the argument list: last top-level (...) before ' -> '
        k = rest.rindex(' -> ')
        # there may be several ' -> ' (closure types); take the one after the matching paren of the call
        # locate call paren: scan from left for '(' at generic depth 0 that is followed by matching ')' + ' -> '
        depth = 0
        pos = None
        i = 0
        while i < len(rest):
            ch = rest[i]
            if ch == '<':
                depth += 1
            elif ch == '>' and rest[i - 1] != '-':
                depth -= 1
            elif ch == '{':
                # closure type {closure@...}
                depth += 1
            elif ch == '}':
                depth -= 1
            elif ch == '(' and depth == 0:
                j = matching_paren(rest, i)
                if rest[j + 1:j + 5] == ' -> ':
                    pos = (i, j)
                    break
                i = j
            i += 1
        if pos:
            i, j = pos
            callee = rest[:i].strip()
            args = [parse_operand(a) for a in split_top(rest[i + 1:j])] if rest[i + 1:j].strip() else []
            ret, unwind = parse_targets(rest[j + 5:])
            return ('call', parse_place(dest), callee, args, ret, unwind)
    m = re.match(r'^(.+?) = (.+)$', stmt)
    if m:
        try:
            d = parse_place(m.group(1))
        except ValueError:
            return ('unknown', stmt)
        return ('assign', d, parse_rvalue(m.group(2)))
    return ('unknown', stmt)


def parse_item(item):
    head = item.split('\n', 1)[0]
    kind = head.split(' ', 1)[0]
    if kind == 'fn':
        i = head.index('(') if not head.startswith('fn <') else None
        # name may contain '<impl at ...>' with parens? no parens inside impl headers; find the arg list start:
        depth = 0
        start = None
        for idx, ch in enumerate(head):
            if ch == '<':
                depth += 1
            elif ch == '>' and head[idx - 1] != '-':
                depth -= 1
            elif ch == '{':
                depth += 1
            elif ch == '}':
                depth -= 1
            elif ch == '(' and depth == 0:
                start = idx
                break
        name = head[3:start]
        j = matching_paren(head, start)
        argstr = head[start + 1:j]
        args = split_top(argstr) if argstr.strip() else []
        nargs = len(args)
        locals_ = {}
        for a in args:
            m = re.match(r'^(_\d+): (.+)$', a)
            locals_[m.group(1)] = m.group(2)
        m = re.search(r'\) -> (.+) \{$', head)
        locals_['_0'] = m.group(1) if m else '()'
    else:
        m2 = re.match(r'^const (.+?): (.+?) = const (.+);$', head)
        if m2:
            return Fn(m2.group(1).strip(), 0, {'_0': m2.group(2)},
                      {'bb0': [('assign', ('_0', ()), ('use', ('const', m2.group(3)))), ('return',)]}, set(), item)
        m = re.match(r'^(?:const|static) (.+): (.+?) = \{$', head)
        if not m:
            return None
        name = m.group(1).strip()
        nargs = 0
        locals_ = {'_0': m.group(2)}
    for lm in re.finditer(r'^\s+let (?:mut )?(_\d+): (.+);$', item, re.M):
        locals_[lm.group(1)] = lm.group(2)
    blocks = {}
    cleanup = set()
    for bm in re.finditer(r'^    (bb\d+)( \(cleanup\))?: \{\n(.*?)^    \}', item, re.M | re.S):
        stmts = [l.strip() for l in bm.group(3).split('\n') if l.strip()]
        blocks[bm.group(1)] = stmts           # parsed lazily
        if bm.group(2):
            cleanup.add(bm.group(1))
    return Fn(name, nargs, locals_, blocks, cleanup, item)


class Program:
    def __init__(s, text):
        s.fns = {}
        items = re.split(r'\n(?=(?:fn |const |static ))', text)
        for it in items:
            if it.startswith(('fn ', 'const ', 'static ')):
                f = parse_item(it)
                if f:
                    s.fns[f.name] = f
        s._parsed = {}
        s._resolve = {}

    def block(s, fn, bb):
        key = (fn.name, bb)
        r = s._parsed.get(key)
        if r is None:
            r = [x if isinstance(x, tuple) else parse_stmt(x) for x in fn.blocks[bb]]
            s._parsed[key] = r
        return r

    def find(s, module, method):
        """unique fn in `module` (e.g. 'key::tree') whose last path segment is `method`"""
        key = (module, method)
        r = s._resolve.get(key)
        if r is None:
            c = [f for n, f in s.fns.items() if n.startswith(module + '::') and n.endswith('::' + method)
                 and '::{closure' not in n[len(module):].replace('::' + method, '') and 'promoted[' not in n]
            r = c
            s._resolve[key] = r
        return r


def cleanup_audit(P, modules):
    """C18 side condition: unwinding out of an operation because a *call* panicked must not touch the collection.  Every cleanup
    block reachable from the unwind edge of a call (user callbacks and crate functions containing them) may only drop locals,
    branch on local drop flags, assign plain locals and resume.  (Cleanup edges of `drop` terminators - a panicking Drop of a stored
    value - are outside C18.)  Returns (offending statements, number of cleanup blocks audited)."""
    bad = []
    n_blocks = 0
    for name, fn in P.fns.items():
        if not any(name.startswith(m + '::') for m in modules):
            continue
        work = []
        for bb in fn.blocks:
            for st in P.block(fn, bb):
                if st[0] == 'call' and st[5] and st[5].startswith('bb'):
                    work.append(st[5])
        seen = set()
        while work:
            bb = work.pop()
            if bb in seen or bb not in fn.blocks:
                continue
            seen.add(bb)
            n_blocks += 1
            for st in P.block(fn, bb):
                k = st[0]
                if k == 'goto':
                    work.append(st[1]); continue
                if k in ('resume', 'nop', 'unreachable'):
                    continue
                if k == 'drop' and all(p[0] == 'field' for p in st[1][1]):
                    if st[2]:
                        work.append(st[2])
                    continue
                if k == 'switch' and st[1][0] in ('copy', 'move') and not st[1][1][1]:
                    work += [t for _, t in st[2]] + ([st[3]] if st[3] else [])
                    continue
                if k == 'assign' and not st[1][1] and st[2][0] in ('use', 'binop', 'unop'):
                    continue
                bad.append(f'{name} {bb}: {st}')
    return bad, n_blocks
